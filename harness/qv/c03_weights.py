"""C03 / C13 helper — the EDGE WEIGHTS of the symmetry-matching graphs against Model/SmwpmWeight.lean
(theorems: Props/C03/Weights.lean).

`cases(ctx)` ties, on the current tree:

  function level   `_distance(code, T, a, b, p, q, eta)` of both SMWPM decoders for ALL ordered pairs of nodes (both
                   types, every plaquette incl. virtual ones, every time) of small lattices and random pairs of larger
                   ones, in every argument context (eta None / finite; p, q in {None, 0, 1, strictly between}; p == q or
                   not): the model's reply `st=<time,parallel,diagonal> d=<value | exception class>` must equal
                     * the step counts recovered from the REAL function evaluated with the three `_step_weight_*`
                       classmethods wrapped so that a SUCCESSFUL call returns a large distinct integer (an undefined
                       one still raises what the real one raises) — the real `_distance` then returns an exact integer
                       from which the counts are read off, and the same integer is the model's `d`;
                     * the exception class the real function raises;
                   and the UNWRAPPED float result must equal time*wt + parallel*wp + diagonal*wd recomputed here with
                   independently written log formulas (relative 1e-12);
  graph level      `_graph` / `_graphs` called directly on random syndromes in every in-domain context: every key's
                   weight equals the model's distance (integer weights as above), every key passes the model's
                   `addEdgeOk` with the flags derived from the same context (`Ctx.flags`), no call raises (the
                   theorems `*_graph_distance_defined`);
  cluster level    `_cluster_distance` on random cluster pairs (virtual flags, cluster-less nodes) and on every edge of
                   real `_cluster_graph`s built from random clusters.

A disagreement is a broken correspondence; `search` then runs the real decoders (decode_ftp) in the same context on
random reachable syndromes and reports a concrete failing input if a decode raises or misses the syndrome.
"""
import itertools
import math
from fractions import Fraction

import numpy as np

from qv import core

WT, WP, WD = 1000003, 1009, 1      # distinct weights: distance = WT*time + WP*par + WD*diag determines the counts (< 1000 each)
TL = 60


def t3(i):
    return '{},{},{}'.format(int(i[0]), int(i[1]), int(i[2]))


def node_w(n):
    return '{},{}'.format(t3(n[0]), int(bool(n[1])))


def pclass(x):
    if x is None:
        return 'n'
    if x == 0:
        return 'z'
    if x == 1:
        return 'o'
    return 'm'


def ctx_w(p, q, eta):
    return '{}{}{}{}'.format(int(eta is None), pclass(p), pclass(q), int(p == q))


def decoders():
    from qecsim.models.rotatedplanar import RotatedPlanarSMWPMDecoder as PD, RotatedPlanarCode as PC
    from qecsim.models.rotatedtoric import RotatedToricSMWPMDecoder as TD, RotatedToricCode as TC
    return {'planar': (PD, PC), 'toric': (TD, TC)}


class IntWeights:
    """wrap the three step-weight classmethods: a successful real call returns a fixed integer instead of the float"""

    def __init__(self, D):
        self.D = D
        self.saved = []

    def __enter__(self):
        for name, val in (('_step_weight_time', WT), ('_step_weight_parallel', WP), ('_step_weight_diagonal', WD)):
            if name not in self.D.__dict__:
                raise core.Infra('hook point {}.{} not found'.format(self.D.__name__, name))
            orig = self.D.__dict__[name]
            self.saved.append((name, orig))
            bound = getattr(self.D, name)

            def w(cls, *a, _b=bound, _v=val):
                _b(*a)          # raises exactly what the real one raises
                return _v
            setattr(self.D, name, classmethod(w))
        return self

    def __exit__(self, *a):
        for name, orig in self.saved:
            setattr(self.D, name, orig)


def exc_class(ex):
    if isinstance(ex, ZeroDivisionError):
        return 'ZeroDivisionError'
    if isinstance(ex, ValueError):
        return 'ValueError'
    return type(ex).__name__


def post_class(model):
    """collapse the model's exception detail to the class (the real code is compared on the class)"""
    st, d = model.split(' ', 1)
    def cl(x):
        k, v = x.split('=', 1)
        if v.startswith('raise:'):
            v = 'raise:' + v.split(':')[1]
        return k + '=' + v
    return cl(st) + ' ' + cl(d)


def steps_from_int(D, code, T, a, b):
    """step counts of the real `_distance`, read off a call in a context where every weight is defined"""
    with IntWeights(D):
        d = D._distance(code, T, a, b, 0.5, 0.25, 1.0)
    d = int(d)
    return d // WT, (d % WT) // WP, (d % WT) % WP


def fmt_frac(x):
    f = Fraction(x)
    return '{}/{}'.format(f.numerator, f.denominator)


def expected_reply(D, code, T, a, b, p, q, eta):
    try:
        st = steps_from_int(D, code, T, a, b)
    except ValueError:
        return 'st=raise:ValueError d=raise:ValueError'
    stw = 'st={},{},{}'.format(*st)
    try:
        with IntWeights(D):
            d = D._distance(code, T, a, b, p, q, eta)
    except (ValueError, ZeroDivisionError) as ex:
        return stw + ' d=raise:' + exc_class(ex)
    return stw + ' d=' + fmt_frac(d)


def w_time(q):
    return -math.log(q / (1 - q))


def w_par(eta, p):
    if eta is None:
        return -math.log(p / (1 - p))
    if p == 1:
        return -math.log(eta / (eta + 1))
    return -(math.log(eta / (eta + 1)) + math.log(p / (1 - p)))


def w_diag(eta, p):
    if p == 1:
        return -math.log(1 / (2 * (eta + 1)))
    return -(math.log(1 / (2 * (eta + 1))) + math.log(p / (1 - p)))


def float_expected(st, p, q, eta):
    if eta is None and p == q:
        return st[1] + st[0]
    d = 0
    if st[0]:
        d += st[0] * w_time(q)
    if st[1]:
        d += st[1] * w_par(eta, p)
    if st[2]:
        d += st[2] * w_diag(eta, p)
    return d


def close(x, y):
    return x == y or abs(x - y) <= 1e-12 * max(abs(x), abs(y))


def all_nodes(fam, code, T):
    if fam == 'planar':
        mx, my = code.site_bounds
        xy = [(x, y) for x in range(-1, mx + 1) for y in range(-1, my + 1)]
    else:
        r, c = code.size
        xy = [(x, y) for x in range(c) for y in range(r)]
    return [((t, x, y), row) for (x, y) in xy for t in range(T) for row in (True, False)]


CONTEXTS = [  # (p, q, eta)
    (0.1, 0.1, None), (0.1, 0.2, None), (0.0, 0.0, None), (0.0, 0.3, None), (0.3, 0.0, None), (0.3, 1.0, None),
    (1.0, 1.0, None), (1.0, 0.5, None), (None, None, None), (None, 0.2, None), (0.2, None, None),
    (0.1, 0.1, 3.0), (0.1, 0.2, 0.5), (0.0, 0.2, 10.0), (0.2, 0.0, 1.0), (0.2, 1.0, 100.0), (1.0, 0.3, 2.0),
    (1.0, 1.0, 0.25), (None, 0.3, 1.0), (0.4, None, 1.0), (0.0, 0.0, 7.0), (0.5, 0.5, 1e-3),
]

# probabilities across magnitudes (still strictly inside (0, 1): every Pauli error / flip stays in the support, no
# edge may be pruned): denormal, tiny, one ulp below 1
MAGNITUDE_CONTEXTS = [
    (1e-10, 0.1, 3.0), (1e-12, 1e-12, None), (0.2, 1e-10, 1.0), (0.2, 1 - 1e-12, 2.0), (5e-324, 0.5, None),
    (1e-300, 1e-300, 0.5), (1e-9, 1e-9, None), (0.3, 1 - 2 ** -53, None), (1e-15, 0.0, 4.0), (1e-7, 1.0, None),
    (1 - 2 ** -53, 0.2, 1.5), (1e-10, 1e-10, 1e-6), (0.1, 0.1, 1e12),
]

# contexts a decoder can be called with inside the property's domain (p in [0,1), q in [0,1], both given)
GRAPH_CONTEXTS = [c for c in CONTEXTS if c[0] is not None and c[1] is not None and c[0] != 1] + MAGNITUDE_CONTEXTS


ALL_CONTEXTS = CONTEXTS + MAGNITUDE_CONTEXTS


def function_level(ctx, fams):
    n = 0
    sizes = {'planar': ctx.scale([(3, 3), (3, 4)], [(3, 3), (3, 4), (4, 3), (4, 5), (5, 5)]),
             'toric': ctx.scale([(2, 2), (4, 2)], [(2, 2), (4, 2), (2, 4), (4, 4), (4, 6), (6, 4)])}
    big = {'planar': [(7, 9), (10, 6)], 'toric': [(8, 6), (6, 10)]}
    for fam in fams:
        D, Code = decoders()[fam]
        op = 'dist' if fam == 'planar' else 'tdist'
        for size in sizes[fam] + big[fam]:
            code = Code(*size)
            small = size in sizes[fam]
            for T in ([1, 2, 3] if small else [5]):
                nodes = all_nodes(fam, code, T)
                pairs = list(itertools.product(nodes, nodes))
                budget = ctx.scale(700, 6000) if small else ctx.scale(300, 2500)
                if len(pairs) > budget:
                    pairs = ctx.rng.sample(pairs, budget)
                for (a, b) in pairs:
                    p, q, eta = ALL_CONTEXTS[ctx.rng.randrange(len(ALL_CONTEXTS))]
                    try:
                        with core.TimeLimit(TL):
                            exp = expected_reply(D, code, T, a, b, p, q, eta)
                    except (core.Infra, TimeoutError):
                        raise
                    except Exception as ex:   # noqa: BLE001  an exception class the model does not know
                        exp = 'raise:' + type(ex).__name__
                    meta = {'kind': 'weights', 'family': fam, 'size': list(size), 'T': T, 'p': p, 'q': q, 'eta': eta,
                            'a': node_w(a), 'b': node_w(b)}
                    ctx.case('smwpm {} {} {} {} {} {} {} {} {} {}'.format(op, size[0], size[1], T, ctx_w(p, q, eta),
                                                                         WT, WP, WD, node_w(a), node_w(b)),
                             exp, nontrivial=True, meta=meta, post=post_class)
                    ctx.count('weights.{}.result'.format(fam), exp.split(' d=')[1].split(':')[0] if 'raise' in exp else 'number')
                    ctx.count('weights.context', ctx_w(p, q, eta))
                    n += 1
                    # float value of the unwrapped function
                    if 'raise' not in exp:
                        st = tuple(int(x) for x in exp.split()[0][3:].split(','))
                        try:
                            got = D._distance(code, T, a, b, p, q, eta)
                            want = float_expected(st, p, q, eta)
                            if not close(float(got), float(want)):
                                ctx.mismatches.append({'op': 'float _distance {} {}'.format(fam, meta), 'impl': repr(got),
                                                       'model': repr(want), 'meta': meta})
                        except Exception as ex:   # noqa: BLE001
                            ctx.mismatches.append({'op': 'float _distance {} {}'.format(fam, meta),
                                                   'impl': 'raise:' + type(ex).__name__, 'model': 'number', 'meta': meta})
    return n


def random_syndrome(ctx, code, T, q, p=0.1):
    """rows a run can hand to the decoder: step errors + flips respecting the class of q"""
    n = code.n_k_d[0]
    S = code.stabilizers
    rows = []
    flips = []
    for t in range(T):
        e = np.zeros(2 * n, dtype=int)
        for i in ctx.rng.sample(range(n), 0 if p == 0 else ctx.rng.randrange(0, 3)):
            e[i] = 1; e[n + i] = 1       # Y errors (inside every bias domain)
        s = (S[:, :n] @ e[n:] + S[:, n:] @ e[:n]) % 2
        if q == 0 or q is None:
            m = np.zeros(len(S), dtype=int)
        elif q == 1:
            m = np.ones(len(S), dtype=int)
        else:
            m = np.array([int(ctx.rng.random() < 0.15) for _ in range(len(S))])
        flips.append(m)
        rows.append(s)
    return np.array([flips[t - 1] ^ rows[t] ^ flips[t] for t in range(T)])


def graph_level(ctx, fams):
    n = 0
    sizes = {'planar': [(3, 3), (4, 3), (3, 5), (5, 4)], 'toric': [(2, 2), (4, 2), (2, 4), (4, 4)]}
    reps = ctx.scale(2, 8)
    for fam in fams:
        D, Code = decoders()[fam]
        gname = '_graph' if fam == 'planar' else '_graphs'
        op = 'dist' if fam == 'planar' else 'tdist'
        for size in sizes[fam]:
            code = Code(*size)
            for (p, q, eta) in GRAPH_CONTEXTS:
                for _ in range(reps):
                    T = ctx.rng.choice([1, 2, 3])
                    synd = random_syndrome(ctx, code, T, q, p)
                    meta = {'kind': 'weights', 'part': 'graph', 'family': fam, 'size': list(size), 'T': T, 'p': p, 'q': q,
                            'eta': eta, 'rows': core.mat(synd)}
                    try:
                        with core.TimeLimit(TL), IntWeights(D):
                            g = getattr(D, gname)(code, T, synd, p, q, eta)
                            graphs = list(g) if fam == 'toric' else [g]
                    except (core.Infra, TimeoutError):
                        raise
                    except Exception as ex:   # noqa: BLE001
                        ctx.monitor_fail('{}.{} raised {!r} for a reachable syndrome in the stated domain (the decoder '
                                         'returns no recovery)'.format(D.__name__, gname, ex)[:300], meta,
                                         key=D.__name__ + '.' + gname + ':raises')
                        continue
                    cw = ctx_w(p, q, eta)
                    # the key SET is exactly the model's edge set for the flags derived from the same arguments
                    from qv import c02_smwpm
                    ctx.case('smwpm {}edges {} {} {} {}'.format('' if fam == 'planar' else 't', c02_smwpm.flags_of(eta, p, q),
                                                               size[0], size[1], core.mat(synd)),
                             c02_smwpm.edges_w([k for gr in graphs for k in gr.keys()]), nontrivial=True,
                             meta=dict(meta, part='graph-keys'))
                    for gr in graphs:
                        for (a, b), w in gr.items():
                            twin = (a[0] == b[0] and a[1] != b[1])
                            if not twin:
                                ctx.case('smwpm edgeok {} {} {}'.format(cw, node_w(a), node_w(b)), '1', nontrivial=False,
                                         meta=dict(meta, a=node_w(a), b=node_w(b)))
                            ctx.case('smwpm {} {} {} {} {} {} {} {} {} {}'.format(op, size[0], size[1], T, cw, WT, WP, WD,
                                                                                 node_w(a), node_w(b)),
                                     'd=' + fmt_frac(w), nontrivial=True, meta=dict(meta, a=node_w(a), b=node_w(b)),
                                     post=lambda m: m.split(' ', 1)[1])
                            n += 1
                    ctx.count('weights.graph.{}'.format(fam), cw)
    return n


def cl_w(c):
    if c is None:
        return 'N'
    if len(c) == 0:
        return '.'
    return ';'.join(t3(i) for i in c)


def cluster_level(ctx, fams):
    n = 0
    for fam in fams:
        D, Code = decoders()[fam]
        for _ in range(ctx.scale(300, 3000)):
            T = ctx.rng.choice([1, 2, 3, 5])
            R, C = ctx.rng.choice([(3, 3), (4, 4), (4, 6), (6, 4)]) if fam == 'planar' else ctx.rng.choice([(2, 2), (4, 4), (4, 6), (6, 4)])
            code = Code(R, C)

            def rc():
                k = ctx.rng.randrange(1, 5)
                lo = -1 if fam == 'planar' else 0
                return [(ctx.rng.randrange(T), ctx.rng.randrange(lo, C), ctx.rng.randrange(lo, R)) for _ in range(k)]
            ca, cb = rc(), rc()
            meta = {'kind': 'weights', 'part': 'cluster', 'family': fam, 'size': [R, C], 'T': T}
            if fam == 'planar':
                av, bv = ctx.rng.random() < 0.3, ctx.rng.random() < 0.3
                na = None if (av and ctx.rng.random() < 0.4) else ca
                nb = None if (bv and ctx.rng.random() < 0.4) else cb
                a = D._ClusterNode(na, na[0] if na else None, na[-1] if na else None, is_virtual=av)
                b = D._ClusterNode(nb, nb[0] if nb else None, nb[-1] if nb else None, is_virtual=bv)
                try:
                    exp = str(int(D._cluster_distance(T, a, b)))
                except ValueError:
                    exp = 'raise:ValueError'
                except Exception as ex:   # noqa: BLE001
                    exp = 'raise:' + type(ex).__name__
                ctx.case('smwpm cdist {} {} {} {} {}'.format(T, int(av), int(bv), cl_w(na), cl_w(nb)), exp, meta=meta,
                         post=lambda m: 'raise:ValueError' if m.startswith('raise:ValueError') else m)
            else:
                a = D._ClusterNode(ca, ca[0], ca[-1])
                b = D._ClusterNode(cb, cb[0], cb[-1])
                try:
                    exp = str(int(D._cluster_distance(code, T, a, b)))
                except Exception as ex:   # noqa: BLE001
                    exp = 'raise:' + type(ex).__name__
                ctx.case('smwpm tcdist {} {} {} {} {}'.format(R, C, T, cl_w(ca), cl_w(cb)), exp, meta=meta)
            n += 1
    return n


def cases(ctx, fams=('planar', 'toric')):
    probe = ctx.driver.ask(['smwpm edgeok 1mz0 0,0,1,1 0,2,1,1'])[0]
    if probe == 'bad-op':
        ctx.count('weights', 'skipped: driver without the weight ops')
        return {'pairs': 0, 'edges': 0, 'clusters': 0}
    return {'pairs': function_level(ctx, fams), 'edges': graph_level(ctx, fams), 'clusters': cluster_level(ctx, fams)}


def search(m):
    """a weight / pruning disagreement: does a real decode in the same context fail the property?"""
    meta = m.get('meta') or {}
    if meta.get('kind') != 'weights':
        return None
    import random
    fam = meta['family']
    D, Code = decoders()[fam]
    code = Code(*meta['size'])
    rng = random.Random(12345)

    class _C:      # the little of Ctx that random_syndrome needs
        pass
    c = _C(); c.rng = rng
    from qecsim.models.generic import BiasedDepolarizingErrorModel, BitPhaseFlipErrorModel
    tried = 0
    for (p, q, eta) in [(meta.get('p'), meta.get('q'), meta.get('eta'))] + GRAPH_CONTEXTS:
        if p is None or q is None or p == 1:
            continue
        em = BitPhaseFlipErrorModel() if eta is None else BiasedDepolarizingErrorModel(eta, 'Y')
        for _ in range(6):
            T = meta.get('T') or rng.choice([1, 2, 3])
            synd = random_syndrome(c, code, T, q, p)
            tried += 1
            try:
                with core.TimeLimit(TL):
                    res = D().decode_ftp(code, T, synd, em, p, q)
                rec = res.recovery if hasattr(res, 'recovery') else res
                n = code.n_k_d[0]
                S = code.stabilizers
                got = (S[:, :n] @ rec[n:] + S[:, n:] @ rec[:n]) % 2
                want = np.bitwise_xor.reduce(synd)
                if not np.array_equal(got, want):
                    return {'what': 'decode_ftp recovery does not have the syndrome of the total error',
                            'family': fam, 'size': meta['size'], 'T': T, 'p': p, 'q': q, 'eta': eta, 'rows': core.mat(synd)}
            except TimeoutError:
                continue
            except Exception as ex:   # noqa: BLE001
                return {'what': 'decode_ftp raised {!r} for a reachable syndrome in the stated domain'.format(ex)[:300],
                        'family': fam, 'size': meta['size'], 'T': T, 'p': p, 'q': q, 'eta': eta, 'rows': core.mat(synd)}
    return None
