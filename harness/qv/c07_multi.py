"""C07 strengthening — ONE call, SEVERAL indices: in-lattice, out-of-lattice and (tori) wrapped / aliased indices mixed.

`site(operator, *indices)` takes any number of indices, `plaquette` applies an operator to all the sites around an index,
`path` to all the sites between two; each documents "operations on sites / parts of plaquettes that lie outside the
lattice have no effect" (planar, rotated planar, colour) or reduces indices modulo the lattice (tori).  The read-back /
history layer of qv/c07_access.py sends an index that may be ignored ALONE; here it travels together with others:

A. multi-index site calls on all five lattice Pauli classes.  Index pools per family, each stated independently of the
   code: in-lattice sites, site indices outside the lattice (margin ring, one step outside every boundary, far away),
   on the tori aliases of in-lattice sites (index + multiples of the period, negative, far) — including two aliases of
   the SAME site in one call (they cancel) — and plain duplicates.  Orders: every permutation of the small mixed sets
   (1-2 outside + 1-2 inside indices), random shuffles of the longer ones, outside index first / in the middle / last.
   Each call is made on a fresh Pauli and on a Pauli that already holds a random operator, and is
     * a correspondence case `<family> sites <size> <op> <bits before> <indices>` against the Lean fold of the
       single-index model (an index outside the lattice leaves the vector alone, the others are applied; for planar and
       colour an index of the wrong KIND raises IndexError with the indices before it applied);
     * monitored directly: to_bsf() == (before) XOR (XOR of the single-index calls, each on its own fresh Pauli), and
       == the independent statement (unit vectors at the position of each in-lattice / wrapped index in the documented
       site enumeration).
B. plaquette operators through ONE site call: for every plaquette index in a margin around the lattice (in-lattice,
   virtual, outside), `plaquette(index)` must equal `site(op, *the sites around it)` in every order of the neighbours
   (4! orders; colour: the 6 rotations, their reversals and random orders) — and the published stabilizer row for the
   in-lattice plaquettes.
C. path operators (planar, toric, rotated toric): endpoints mixing in-lattice, virtual / outside and aliased plaquettes,
   both orders, compared with the Lean `path`; the path's support written back through one site call, interleaved with
   outside indices in random order, must reproduce it; path(a, b) == path(b, a); on the tori path(alias a, alias b) ==
   path(a, b).
Every qecsim call is guarded: an exception the documentation does not allow is a monitor failure with the call.
"""
import itertools

import numpy as np

from qv.core import bits
from qv import c07_access as A

_FAR = (100, 1000, 12345)


def _idx(i):
    return ','.join(str(int(x)) for x in i)


def _idxlist(l):
    return ';'.join(_idx(i) for i in l) if l else '_'


def _sizearg(size):
    return ' '.join(str(int(s)) for s in size)


# ------------------------------------------------------------------------------------------------ index pools

def kind_ok(fam, i):
    """is `i` an index site() accepts (does not raise for)?  Stated from the documentation, not asked of the code."""
    if fam.name == 'planar':
        return i[0] % 2 == i[1] % 2
    if fam.name == 'color666':
        return i[1] % 3 != 2 - (i[0] % 3)
    return True


def outside_pool(fam, size, rng):
    """indices site() accepts that are not in-lattice sites: (near ring, far).  Tori: aliases of in-lattice sites."""
    sites = fam.sites(size)
    inside = set(sites)
    if fam.name == 'planar':
        R, C = size
        near = [i for i in A._box(-4, 2 * R + 2, -4, 2 * C + 2) if i not in inside and kind_ok(fam, i)]
        far = [(2 * f * s, 2 * g * t) for f in _FAR for g in _FAR for s in (1, -1) for t in (1, -1)] + \
              [(r, -2 * f) for f in _FAR for r in range(0, 2 * R - 1, 2)] + [(2 * R - 2 + 2 * f, 0) for f in _FAR]
    elif fam.name == 'rotatedplanar':
        R, C = size
        near = [i for i in A._box(-3, C + 2, -3, R + 2) if i not in inside] + [(C, 0), (0, R), (R, C), (C + R, 0)]
        near = [i for i in near if i not in inside]
        far = [(f * s, g * t) for f in _FAR for g in _FAR for s in (1, -1) for t in (1, -1)] + \
              [(x, -f) for f in _FAR for x in range(C)] + [(C - 1 + f, y) for f in _FAR for y in range(R)]
    elif fam.name == 'color666':
        b = fam._bound(size[0])
        near = [i for i in A._box(-4, b + 4, -4, b + 4) if i not in inside and kind_ok(fam, i)]
        far = [i for f in _FAR for s in (1, -1) for i in ((f * s, 0), (0, f * s), (f * s, f * s), (b, b + f), (b + f, 0),
                                                         (-f, -f - 1), (f, 2 * f)) if kind_ok(fam, i)]
    elif fam.name == 'toric':
        R, C = size
        near = [(l + 2 * a, r + R * b, c + C * d) for (l, r, c) in sites for a, b, d in
                ((0, 1, 0), (0, 0, 1), (0, -1, 0), (0, 0, -1), (1, 0, 0), (-1, 0, 0), (0, 1, 1), (1, -1, -1), (-1, 1, -1))]
        far = [(l + 2 * a * f, r + R * b * f, c + C * d * f) for (l, r, c) in rng.sample(sites, min(len(sites), 6))
               for f in _FAR for a, b, d in ((1, 1, 1), (-1, -1, -1), (0, -1, 1), (1, 0, -1))]
    else:  # rotatedtoric
        R, C = size
        near = [(x + C * a, y + R * b) for (x, y) in sites for a, b in
                ((1, 0), (0, 1), (-1, 0), (0, -1), (1, 1), (-1, -1), (1, -1), (-1, 1), (2, 0), (0, -2))]
        far = [(x + C * a * f, y + R * b * f) for (x, y) in rng.sample(sites, min(len(sites), 6))
               for f in _FAR for a, b in ((1, 1), (-1, -1), (0, -1), (1, 0), (-1, 1))]
    return near, far


def wrong_kind_pool(fam, size):
    """indices site() refuses with IndexError (planar / colour: plaquette indices), in and around the lattice"""
    if fam.name == 'planar':
        R, C = size
        return [i for i in A._box(-2, 2 * R, -2, 2 * C) if not kind_ok(fam, i)]
    if fam.name == 'color666':
        b = fam._bound(size[0])
        return [i for i in A._box(-2, b + 2, -2, b + 2) if not kind_ok(fam, i)]
    return []


def delta_spec(fam, size, flat, o, idxs):
    """independent statement of site(o, *idxs) on a fresh Pauli: every in-lattice (tori: wrapped) index toggles its bit,
    every other index the call accepts does nothing"""
    n = len(flat)
    v = np.zeros(2 * n, dtype=int)
    for i in idxs:
        j = flat.get(tuple(i))
        if j is None and fam.norm(size, i) is not None:
            j = flat.get(fam.norm(size, i))
        if j is None:
            continue
        if o in 'XY':
            v[j] ^= 1
        if o in 'ZY':
            v[n + j] ^= 1
    return v


# ------------------------------------------------------------------------------------------------ A. one multi-index call

def one_call(ctx, mon, fam, code, size, flat, o, idxs, before, why):
    """site(o, *idxs) on a Pauli holding `before` (None = fresh): Lean case + direct monitors"""
    n = len(flat)
    tag = fam.tag(size)
    idxs = [tuple(int(x) for x in i) for i in idxs]
    b0 = np.zeros(2 * n, dtype=int) if before is None else np.array(before, dtype=int)
    call = 'new_pauli({}).site({!r}, {})'.format('' if before is None else 'bsf', o, ', '.join(str(i) for i in idxs))
    inp = {'family': fam.name, 'size': list(size), 'code': tag, 'call': call, 'operator': o,
           'indices': [list(i) for i in idxs], 'class': why}
    if before is not None:
        inp['bsf_before'] = bits(b0)
    exc = None
    try:
        p = code.new_pauli() if before is None else code.new_pauli(b0.copy())
        try:
            ret = p.site(o, *idxs)
        except IndexError:
            exc, ret = 'IndexError', p
        got = np.array(p.to_bsf(), dtype=int)
    except Exception as ex:
        mon.fail(fam.name, 'multi-exc', 'constructible code {} raises {} from a multi-index site() call'.format(
            tag, type(ex).__name__), dict(inp, error=repr(ex)[:200]))
        return
    accepted = all(kind_ok(fam, i) for i in idxs)
    if accepted:
        # XOR of the single-index calls, each on its own fresh Pauli
        singles = np.zeros(2 * n, dtype=int)
        try:
            for i in idxs:
                singles ^= np.array(code.new_pauli().site(o, i).to_bsf(), dtype=int)
        except Exception as ex:
            mon.fail(fam.name, 'multi-single-exc', 'site() with one index of a multi-index call raises {}'.format(
                type(ex).__name__), dict(inp, error=repr(ex)[:200]))
            return
        spec = delta_spec(fam, size, flat, o, idxs)
        if exc is not None:
            mon.fail(fam.name, 'multi-refused', 'site() refuses a call whose indices are all site indices '
                     '(outside the lattice = no effect)', dict(inp, raised=exc))
        elif not np.array_equal(got, b0 ^ singles):
            lost = [list(i) for i in idxs if np.any((b0 ^ got ^ singles) & delta_spec(fam, size, flat, o, [i]))]
            mon.fail(fam.name, 'multi-xor', 'one site() call with several indices differs from the single-index calls: '
                     'an index outside the lattice must have no effect and the other indices must still be applied '
                     '(site access and bsf disagree)',
                     dict(inp, to_bsf=bits(got), xor_of_single_index_calls=bits(b0 ^ singles),
                          indices_whose_bits_differ=lost))
        elif not np.array_equal(got, b0 ^ spec):
            mon.fail(fam.name, 'multi-spec', 'one site() call with several indices does not toggle exactly the bits at the '
                     'flattened (wrapped) positions of its in-lattice indices', dict(inp, to_bsf=bits(got),
                                                                                    expected=bits(b0 ^ spec)))
        elif ret is not p:
            mon.fail(fam.name, 'multi-ret', 'site() does not return self', inp)
    out = bits(got) if exc is None else 'IndexError:' + bits(got)
    ctx.case('{} sites {} {} {} {}'.format(fam.name, _sizearg(size), o, bits(b0), _idxlist(idxs)), out,
             nontrivial=bool(len(idxs) > 1), meta={'tag': tag, 'part': 'multi', 'class': why})
    ctx.count('c07_multi_class', fam.name + ' ' + why)
    ctx.count('c07_multi_len', min(len(idxs), 8))


def multi_site(ctx, mon, fam, code, size):
    rng = ctx.rng
    sites = fam.sites(size)
    flat = {s: k for k, s in enumerate(sites)}
    n = len(sites)
    near, far = outside_pool(fam, size, rng)
    wrong = wrong_kind_pool(fam, size)
    ops = 'XYZ'

    def rnd_before():
        return None if rng.random() < 0.5 else np.array([rng.randint(0, 1) for _ in range(2 * n)])

    def out1():
        return rng.choice(near) if rng.random() < 0.75 else rng.choice(far)

    # 1. every permutation of small mixed sets: (1 outside, 1-2 inside), (2 outside, 1-2 inside)
    for _ in range(ctx.scale(3, 8)):
        for n_out, n_in in ((1, 1), (1, 2), (2, 1), (2, 2), (1, 3)):
            base = [out1() for _ in range(n_out)] + [rng.choice(sites) for _ in range(n_in)]
            o = rng.choice(ops)
            perms = list(itertools.permutations(range(len(base))))
            if len(perms) > 24:
                perms = rng.sample(perms, 24)
            bf = rnd_before()
            for pm in perms:
                one_call(ctx, mon, fam, code, size, flat, o, [base[k] for k in pm], bf,
                         'all orders of {} outside + {} inside'.format(n_out, n_in))
    # 2. position of ONE outside index in a longer run of distinct inside indices: first, each middle slot, last
    for _ in range(ctx.scale(2, 5)):
        k = rng.randint(3, min(7, n))
        ins = rng.sample(sites, k)
        o = rng.choice(ops + 'I')
        x = out1()
        for pos in range(k + 1):
            one_call(ctx, mon, fam, code, size, flat, o, ins[:pos] + [x] + ins[pos:], rnd_before(),
                     'one outside index at each position')
    # 3. long random mixtures: duplicates (cancel), several outside indices, far indices, every share of outside
    for _ in range(ctx.scale(10, 30)):
        k = rng.choice([2, 3, 4, 5, 6, 8, 12, 20])
        share = rng.choice([0.0, 0.2, 0.5, 0.8, 1.0])
        idxs = [(out1() if rng.random() < share else rng.choice(sites)) for _ in range(k)]
        if rng.random() < 0.3:
            idxs += rng.sample(idxs, min(len(idxs), 2))      # plain duplicates
        rng.shuffle(idxs)
        one_call(ctx, mon, fam, code, size, flat, rng.choice(ops + 'I'), idxs, rnd_before(), 'random mixture')
    # 4. tori: two different aliases of the same site in one call, with other indices in between
    if fam.norm(size, sites[0]) is not None:
        by_site = {}
        for i in near + far:
            by_site.setdefault(fam.norm(size, i), []).append(i)
        for _ in range(ctx.scale(8, 20)):
            s = rng.choice(sites)
            al = by_site.get(s) or [s]
            group = [s, rng.choice(al)] + ([rng.choice(al)] if rng.random() < 0.5 else [])
            idxs = group + [rng.choice(sites) for _ in range(rng.randint(0, 3))]
            rng.shuffle(idxs)
            one_call(ctx, mon, fam, code, size, flat, rng.choice(ops), idxs, rnd_before(), 'aliases of one site')
    # 5. planar / colour: an index of the wrong kind among the others (IndexError, the indices before it applied)
    if wrong:
        for _ in range(ctx.scale(6, 16)):
            k = rng.randint(1, 4)
            idxs = [(out1() if rng.random() < 0.4 else rng.choice(sites)) for _ in range(k)]
            idxs.insert(rng.randint(0, k), rng.choice(wrong))
            one_call(ctx, mon, fam, code, size, flat, rng.choice(ops), idxs, rnd_before(), 'wrong-kind index among others')
    # 6. no index at all / one index (the degenerate ends of the class)
    one_call(ctx, mon, fam, code, size, flat, 'Y', [], rnd_before(), 'no index')
    one_call(ctx, mon, fam, code, size, flat, 'Y', [out1()], rnd_before(), 'single outside index')


# ------------------------------------------------------------------------------------------------ B. plaquettes through site()

def plaq_neighbours(fam, code, size, i):
    """(operator, site indices around plaquette index i) as documented, or None when i is not a plaquette index"""
    if fam.name == 'planar':
        r, c = i
        if r % 2 == c % 2:
            return None
        return ('Z' if r % 2 == 1 else 'X'), [(r - 1, c), (r + 1, c), (r, c - 1), (r, c + 1)]     # primal: odd row
    if fam.name == 'toric':
        R, C = size
        l, r, c = i[0] % 2, i[1] % R, i[2] % C
        # lattice 0 (primal): Z on North, South (same lattice), West, East (other lattice); lattice 1 (dual): X
        return ('Z' if l == 0 else 'X'), [(l, r, c), (l, r + 1, c), (l + 1, r + l, c - l), (l + 1, r + l, c - l + 1)]
    if fam.name in ('rotatedplanar', 'rotatedtoric'):
        x, y = i
        return ('X' if (x - y) % 2 == 1 else 'Z'), [(x, y), (x, y + 1), (x + 1, y + 1), (x + 1, y)]
    return None


def plaq_index_pool(fam, code, size):
    if fam.name == 'planar':
        R, C = size
        return [i for i in A._box(-3, 2 * R + 1, -3, 2 * C + 1) if i[0] % 2 != i[1] % 2]
    if fam.name == 'rotatedplanar':
        R, C = size
        return A._box(-3, C + 2, -3, R + 2)
    if fam.name == 'rotatedtoric':
        R, C = size
        return A._box(-C - 1, 2 * C + 1, -R - 1, 2 * R + 1)
    if fam.name == 'toric':
        R, C = size
        return [(l, r, c) for l in (-2, -1, 0, 1, 2, 3) for r in range(-R - 1, 2 * R + 1) for c in range(-C - 1, 2 * C + 1)]
    b = fam._bound(size[0])
    return [i for i in A._box(-3, b + 3, -3, b + 3) if not kind_ok(fam, i)]


def plaq_through_site(ctx, mon, fam, code, size, lean_budget):
    rng = ctx.rng
    sites = fam.sites(size)
    flat = {s: k for k, s in enumerate(sites)}
    n = len(sites)
    tag = fam.tag(size)
    pool = plaq_index_pool(fam, code, size)
    budget = ctx.scale(40, 120)
    if len(pool) > budget:
        # keep every index within one step of the lattice boundary region first (the partially-inside plaquettes)
        pool = rng.sample(pool, budget)
    real = {tuple(int(x) for x in i): k for k, i in enumerate(fam.plaquettes(code))}
    stabs = None
    for i in pool:
        if fam.name == 'color666':
            r, c = i
            neigh = [(r - 1, c - 1), (r - 1, c), (r, c + 1), (r + 1, c + 1), (r + 1, c), (r, c - 1)]   # around the hexagon
            variants = [(o, ('plaquette', o, i)) for o in 'XYZ']
        else:
            if fam.name == 'rotatedplanar' and tuple(i) not in real:
                # boundary plaquettes that are not stabilizers are documented no-ops of this family's plaquette(); they are
                # compared with the Lean model by qv/families/rotatedplanar — here only their sites in one site() call
                o, neigh = plaq_neighbours(fam, code, size, i)
                if lean_budget[0] > 0 and any(tuple(s) in flat for s in neigh):
                    lean_budget[0] -= 1
                    one_call(ctx, mon, fam, code, size, flat, o, rng.sample(neigh, 4), None, 'sites around a plaquette')
                continue
            o, neigh = plaq_neighbours(fam, code, size, i)
            variants = [(o, ('plaquette', i))]
        for o, w in variants:
            try:
                want = np.array(A.apply(code.new_pauli(), w).to_bsf(), dtype=int)
            except Exception as ex:
                mon.fail(fam.name, 'plaq-exc', 'constructible code {} raises {} from new_pauli().plaquette()'.format(
                    tag, type(ex).__name__), {'family': fam.name, 'size': list(size), 'code': tag, 'call': A.show(w),
                                              'error': repr(ex)[:200]})
                continue
            if fam.name == 'color666':
                orders = [neigh[k:] + neigh[:k] for k in range(6)]
                orders += [list(reversed(x)) for x in orders]
                orders += [rng.sample(neigh, 6) for _ in range(4)]
            else:
                orders = [list(pm) for pm in itertools.permutations(neigh)]
            inside = sum(1 for s in neigh if tuple(s) in flat or fam.norm(size, s) is not None)
            for od in orders:
                try:
                    got = np.array(code.new_pauli().site(o, *od).to_bsf(), dtype=int)
                except Exception as ex:
                    mon.fail(fam.name, 'plaq-site-exc', 'site() on the sites around a plaquette raises {}'.format(
                        type(ex).__name__), {'family': fam.name, 'size': list(size), 'code': tag, 'plaquette': list(i),
                                             'call': 'new_pauli().site({!r}, {})'.format(o, ', '.join(map(str, od))),
                                             'error': repr(ex)[:200]})
                    break
                if not np.array_equal(got, want):
                    mon.fail(fam.name, 'plaq-site', 'the plaquette operator and ONE site() call on the sites around the '
                             'plaquette disagree (site access, plaquette operators and bsf must agree; parts outside the '
                             'lattice have no effect)',
                             {'family': fam.name, 'size': list(size), 'code': tag, 'plaquette': list(i),
                              'plaquette_call': A.show(w),
                              'site_call': 'new_pauli().site({!r}, {})'.format(o, ', '.join(map(str, od))),
                              'site_call.to_bsf': bits(got), 'plaquette.to_bsf': bits(want),
                              'neighbours_in_lattice': inside})
                    break
            if lean_budget[0] > 0 and 0 < inside:
                lean_budget[0] -= 1
                od = rng.choice(orders)
                one_call(ctx, mon, fam, code, size, flat, o, od, None, 'sites around a plaquette')
            k = real.get(tuple(i))
            if k is not None and (fam.name != 'color666' or o in 'XZ'):
                if stabs is None:
                    stabs = np.array(code.stabilizers, dtype=int)
                row = stabs[k] if fam.name != 'color666' else stabs[k + (0 if o == 'X' else len(real))]
                if not np.array_equal(row, want):
                    mon.fail(fam.name, 'plaq-row', 'the published stabilizer row differs from the plaquette operator',
                             {'family': fam.name, 'size': list(size), 'code': tag, 'plaquette': list(i), 'operator': o,
                              'row': int(k), 'stabilizer': bits(row), 'plaquette.to_bsf': bits(want)})
        ctx.count('c07_multi_plaq', fam.name)


# ------------------------------------------------------------------------------------------------ C. paths

def path_endpoints(fam, code, size, rng, k):
    """pairs (a, b) on one lattice, mixing in-lattice, virtual / outside and aliased plaquettes"""
    out = []
    if fam.name == 'planar':
        R, C = size
        allp = [i for i in A._box(-3, 2 * R + 1, -3, 2 * C + 1) if i[0] % 2 != i[1] % 2]
        real = set(fam.plaquettes(code))
        for _ in range(k):
            a = rng.choice(allp)
            same = [b for b in allp if b[0] % 2 == a[0] % 2]
            b = rng.choice(same)
            if rng.random() < 0.5:
                b = rng.choice([x for x in same if (x in real) != (a in real)] or same)
            out.append((a, b))
    elif fam.name == 'toric':
        R, C = size
        for _ in range(k):
            l = rng.randint(0, 1)
            a = (l, rng.randrange(R), rng.randrange(C))
            b = (l, rng.randrange(R), rng.randrange(C))
            al = lambda i: (i[0] + 2 * rng.randint(-2, 2), i[1] + R * rng.randint(-3, 3), i[2] + C * rng.randint(-3, 3))
            u = rng.random()
            out.append((al(a), b) if u < 0.35 else (a, al(b)) if u < 0.7 else (al(a), al(b)))
    elif fam.name == 'rotatedtoric':
        R, C = size
        real = fam.plaquettes(code)
        for _ in range(k):
            a = rng.choice(real)
            b = rng.choice([x for x in real if (x[0] + x[1]) % 2 == (a[0] + a[1]) % 2])
            al = lambda i: (i[0] + C * rng.randint(-3, 3), i[1] + R * rng.randint(-3, 3))
            u = rng.random()
            out.append((al(a), b) if u < 0.35 else (a, al(b)) if u < 0.7 else (al(a), al(b)))
    return out


def paths(ctx, mon, fam, code, size):
    rng = ctx.rng
    sites = fam.sites(size)
    flat = {s: k for k, s in enumerate(sites)}
    n = len(sites)
    tag = fam.tag(size)
    near, far = outside_pool(fam, size, rng)
    for a, b in path_endpoints(fam, code, size, rng, ctx.scale(10, 30)):
        res = {}
        for x, y in ((a, b), (b, a)):
            try:
                res[(x, y)] = np.array(code.new_pauli().path(x, y).to_bsf(), dtype=int)
            except IndexError:
                res[(x, y)] = 'IndexError'
            except Exception as ex:
                mon.fail(fam.name, 'path-exc', 'constructible code {} raises {} from new_pauli().path()'.format(
                    tag, type(ex).__name__), {'family': fam.name, 'size': list(size), 'code': tag,
                                              'call': ['path', list(x), list(y)], 'error': repr(ex)[:200]})
                res[(x, y)] = None
        v, w = res[(a, b)], res[(b, a)]
        if v is None or w is None:
            continue
        for (x, y), r in res.items():
            ctx.case('{} path {} {} {}'.format(fam.name, _sizearg(size), _idx(x), _idx(y)),
                     r if isinstance(r, str) else bits(r), nontrivial=(x != y), meta={'tag': tag, 'part': 'multi-path'})
        if isinstance(v, str) or isinstance(w, str):
            if not (isinstance(v, str) and isinstance(w, str)):
                mon.fail(fam.name, 'path-sym', 'path(a, b) is refused but path(b, a) is not',
                         {'family': fam.name, 'size': list(size), 'code': tag, 'a': list(a), 'b': list(b)})
            continue
        inp = {'family': fam.name, 'size': list(size), 'code': tag, 'a': list(a), 'b': list(b), 'path.to_bsf': bits(v)}
        if fam.norm(size, sites[0]) is not None:
            # tori: aliases of the endpoints index the same plaquettes
            if fam.name == 'toric':
                R, C = size
                na, nb = (a[0] % 2, a[1] % R, a[2] % C), (b[0] % 2, b[1] % R, b[2] % C)
            else:
                R, C = size
                na, nb = (a[0] % C, a[1] % R), (b[0] % C, b[1] % R)
            try:
                base = np.array(code.new_pauli().path(na, nb).to_bsf(), dtype=int)
            except Exception as ex:
                base = None
                mon.fail(fam.name, 'path-exc', 'path between in-lattice plaquettes raises {}'.format(type(ex).__name__),
                         dict(inp, call=['path', list(na), list(nb)]))
            if base is not None and not np.array_equal(base, v):
                mon.fail(fam.name, 'path-alias', 'path between aliased (wrapped) plaquette indices differs from the path '
                         'between the in-lattice indices they wrap to', dict(inp, wrapped_a=list(na), wrapped_b=list(nb),
                                                                            wrapped_path=bits(base)))
                continue
        # the path's support written through ONE site call, outside indices interleaved, random order
        for o, sel in (('X', (v[:n] == 1) & (v[n:] == 0)), ('Z', (v[:n] == 0) & (v[n:] == 1)), ('Y', (v[:n] == 1) & (v[n:] == 1))):
            sup = [sites[j] for j in np.flatnonzero(sel)]
            if not sup:
                continue
            idxs = sup + [rng.choice(near) for _ in range(rng.randint(1, 3))]
            if fam.norm(size, sites[0]) is not None:
                # an alias of a support site replaces the site itself; the extra aliases come in cancelling pairs
                extra = rng.choice(near)
                idxs = [i for i in sup] + [extra, fam.norm(size, extra)]
            rng.shuffle(idxs)
            part = np.zeros(2 * n, dtype=int)
            if o in 'XY':
                part[:n] = sel
            if o in 'ZY':
                part[n:] = sel
            try:
                got = np.array(code.new_pauli().site(o, *idxs).to_bsf(), dtype=int)
            except Exception as ex:
                mon.fail(fam.name, 'path-site-exc', 'site() on the sites of a path raises {}'.format(type(ex).__name__),
                         dict(inp, site_call='new_pauli().site({!r}, {})'.format(o, ', '.join(map(str, idxs)))))
                continue
            if not np.array_equal(got, part):
                mon.fail(fam.name, 'path-site', 'the sites a path operator acts on, written through ONE site() call together '
                         'with indices outside the lattice, do not give the path operator back',
                         dict(inp, site_call='new_pauli().site({!r}, {})'.format(o, ', '.join(map(str, idxs))),
                              **{'site_call.to_bsf': bits(got), 'expected': bits(part)}))
        ctx.count('c07_multi_path', fam.name)


# ------------------------------------------------------------------------------------------------ failing-input search

def multi_search(m):
    """a broken `sites` correspondence: replay the recorded call on the real code, and every call obtained from it by
    dropping indices (shorter calls first), and evaluate the clause itself — one call == XOR of the single-index calls"""
    f = m['op'].split()
    fam = A.BY_NAME.get(f[0])
    if fam is None or f[1] != 'sites':
        return None
    nsz = 2 if fam.two else 1
    size = tuple(int(x) for x in f[2:2 + nsz])
    o, before, lst = f[2 + nsz], f[3 + nsz], f[4 + nsz]
    idxs = [] if lst == '_' else [tuple(int(x) for x in i.split(',')) for i in lst.split(';')]
    if not all(kind_ok(fam, i) for i in idxs):
        return None
    code = fam.load()(*size)
    b0 = np.array([int(ch) for ch in before], dtype=int)
    subsets = sorted((c for k in range(2, len(idxs) + 1) for c in itertools.combinations(range(len(idxs)), k)),
                     key=len)[:400]
    for c in subsets:
        sub = [idxs[k] for k in c]
        for start in (np.zeros_like(b0), b0):
            got = np.array(code.new_pauli(start.copy()).site(o, *sub).to_bsf(), dtype=int)
            singles = start.copy()
            for i in sub:
                singles ^= np.array(code.new_pauli().site(o, i).to_bsf(), dtype=int)
            if not np.array_equal(got, singles):
                return {'what': 'C07 fails on the real code: one site() call with several indices differs from the '
                                'single-index calls (site access and bsf disagree)',
                        'input': {'family': fam.name, 'size': list(size),
                                  'call': 'new_pauli({}).site({!r}, {})'.format('bsf' if start.any() else '', o,
                                                                              ', '.join(str(i) for i in sub)),
                                  'bsf_before': bits(start), 'to_bsf': bits(got),
                                  'xor_of_single_index_calls': bits(singles)}, 'key': None}
    return None


# ------------------------------------------------------------------------------------------------ entry

def sizes(fam, tier):
    """the square grid of the access layer up to a smaller bound, every strip size of that layer, and the minimal size"""
    grid = fam.sizes(tier)
    if fam.two:
        lo = min(min(s) for s in grid)
        cap = lo + (2 if tier == 'quick' else 4)
        small = [s for s in grid if max(s) <= cap]
        strips = [s for s in grid if max(s) > 2 * min(s) + 3]
        return small + strips[:4 if tier == 'quick' else 8]
    return grid[:3 if tier == 'quick' else 5]


def run(ctx, mon, only=None):
    from qv.families import common
    for fam in A.FAMS:
        if only and fam.name not in only:
            continue
        cls = fam.load()
        lean_budget = [ctx.scale(60, 200)]
        for size in sizes(fam, ctx.tier):
            pub = common.published(ctx, fam.name, size, lambda: cls(*size))
            if pub.code is None or 'n_k_d' in pub.failed:
                continue
            code = pub.code
            if int(code.n_k_d[0]) != len(fam.sites(size)):
                continue        # reported by the read-back layer
            parts = [lambda: multi_site(ctx, mon, fam, code, size),
                     lambda: plaq_through_site(ctx, mon, fam, code, size, lean_budget)]
            if fam.paths:
                parts.append(lambda: paths(ctx, mon, fam, code, size))
            for part in parts:
                try:
                    part()
                except Exception as ex:
                    import sys
                    tb = sys.exc_info()[2]
                    if not A.from_qecsim(tb):
                        raise
                    line, inner = common.where_raised(tb)
                    common.report_raises(ctx, fam.name, size, line or 'multi-index calls', ex, tb=tb)
            ctx.count('c07_multi_size', fam.tag(size))
