"""rotated planar family: correspondence cases for C07 (code validity / index map) plus direct monitors.

Indices of this family are (x, y) = (column, row); every integer pair is both a site index and a plaquette index.
`site` and `plaquette` never raise (they are no-ops out of bounds); `operator` and `_flatten_site_index` do.
The family has no `path`/`translation`, so there is no c15_cases."""
import itertools

import numpy as np

from qv.core import bits, mat
from qv.families import common

NAME = 'rotatedplanar'
C07_BOUND = {'quick': 7, 'thorough': 11}
MIN = 3
MARGIN = 3


def sizes(bound, minimal=MIN):
    return [(r, c) for r in range(minimal, bound + 1) for c in range(minimal, bound + 1)]


def idx(i):
    return '{},{}'.format(int(i[0]), int(i[1]))


def idxlist(l):
    return ';'.join(idx(i) for i in l) if l else '_'


def _support(code, q):
    msx, msy = code.site_bounds
    return {(x, y): q.operator((x, y)) for x in range(msx + 1) for y in range(msy + 1) if q.operator((x, y)) != 'I'}


def c07_sizes(bound, tier):
    """the square grid [3..bound]^2 (holds rows >= 2 cols and cols >= 2 rows as soon as bound >= 6) plus strips beyond it:
    narrow side 3 or 4, long side bound+1 .. 14 (quick) / 18 (thorough), both orientations"""
    return sizes(bound) + common.strips(range(MIN, 64), bound, 14 if tier == 'quick' else 18)


def c07_cases(ctx, bound):
    from qecsim.models.rotatedplanar import RotatedPlanarCode
    rng = ctx.rng

    def one_size(code, R, C):
        tag = 'rotatedplanar {}x{}'.format(R, C)
        P = 'rotatedplanar '
        ctx.case(P + 'nkd {} {}'.format(R, C), '{} {} {}'.format(*code.n_k_d), meta={'tag': tag})
        ctx.case(P + 'stabs {} {}'.format(R, C), mat(code.stabilizers), meta={'tag': tag})
        ctx.case(P + 'lx {} {}'.format(R, C), bits(code.logical_xs[0]), meta={'tag': tag})
        ctx.case(P + 'lz {} {}'.format(R, C), bits(code.logical_zs[0]), meta={'tag': tag})
        real = list(code._plaquette_indices)
        ctx.case(P + 'plaqidx {} {}'.format(R, C), idxlist(real), meta={'tag': tag})
        ctx.case(P + 'bounds {} {}'.format(R, C), idx(code.site_bounds), meta={'tag': tag})
        common.code_monitor(ctx, code, tag)
        ctx.count('rotatedplanar_size', '{}x{}'.format(R, C))
        n = code.n_k_d[0]
        msx, msy = code.site_bounds
        if (msx, msy) != (C - 1, R - 1) or n != R * C or len(real) != n - 1 or len(set(real)) != len(real):
            ctx.monitor_fail('site bounds / qubit count / plaquette count inconsistent with the size',
                             {'code': tag, 'site_bounds': [msx, msy], 'n': n, 'plaquettes': len(real)})
        # index map: every index in a margin around the lattice
        flats = []
        inb_set = set()
        for y in range(-MARGIN, msy + MARGIN + 1):
            for x in range(-MARGIN, msx + MARGIN + 1):
                i = (x, y)
                isx, isz = bool(code.is_x_plaquette(i)), bool(code.is_z_plaquette(i))
                ctx.case(P + 'kinds ' + idx(i), '{}{}'.format(int(isx), int(isz)), nontrivial=False)
                insite = bool(code.is_in_site_bounds(i))
                inplaq = bool(code.is_in_plaquette_bounds(i))
                isvirt = bool(code.is_virtual_plaquette(i))
                ctx.case(P + 'inb {} {} {}'.format(R, C, idx(i)), '{}{}{}'.format(int(insite), int(inplaq), int(isvirt)),
                         meta={'tag': tag})
                if inplaq:
                    inb_set.add(i)
                p = code.new_pauli()
                try:
                    f = str(int(p._flatten_site_index(i)))
                    flats.append(int(f))
                except AssertionError:
                    f = 'AssertionError'
                ctx.case(P + 'flat {} {} {}'.format(R, C, idx(i)), f, meta={'tag': tag})
                if (f != 'AssertionError') != insite:
                    ctx.monitor_fail('_flatten_site_index accepts exactly the in-bounds sites: violated',
                                     {'code': tag, 'index': list(i)})
                # site / operator read-back / to_bsf agree through the bijection
                for op in 'XYZ':
                    q = code.new_pauli().site(op, i)
                    v = q.to_bsf()
                    if insite:
                        if q.operator(i) != op or int(v.sum()) != (2 if op == 'Y' else 1):
                            ctx.monitor_fail('site/operator read-back disagree', {'code': tag, 'index': list(i)})
                    else:
                        if v.any():
                            ctx.monitor_fail('site out of bounds is not a no-op', {'code': tag, 'index': list(i)})
                        try:
                            q.operator(i)
                            ctx.monitor_fail('operator out of bounds does not raise IndexError',
                                             {'code': tag, 'index': list(i)})
                        except IndexError:
                            pass
                    ctx.case(P + 'site {} {} {} {}'.format(R, C, op, idx(i)), bits(v), nontrivial=insite,
                             meta={'tag': tag})
                q = code.new_pauli().plaquette(i)
                v = q.to_bsf()
                ctx.case(P + 'plaq {} {} {}'.format(R, C, idx(i)), bits(v), nontrivial=inplaq, meta={'tag': tag})
                # ---- plaquette structure on the real code
                sup = _support(code, q)
                if not inplaq:
                    if sup:
                        ctx.monitor_fail('plaquette out of plaquette bounds is not a no-op',
                                         {'code': tag, 'index': list(i)})
                else:
                    want_op = 'X' if isx else 'Z'
                    corners = {s for s in [(x, y), (x, y + 1), (x + 1, y + 1), (x + 1, y)] if code.is_in_site_bounds(s)}
                    bulk = 0 <= x < msx and 0 <= y < msy
                    if set(sup) != corners or any(o != want_op for o in sup.values()) or \
                            len(sup) != (4 if bulk else 2) or isx == isz:
                        ctx.monitor_fail('plaquette operator does not have its documented support '
                                         '(4 corners in the bulk, 2 on the boundary, single type)',
                                         {'code': tag, 'index': list(i), 'support': sorted(sup)})
                    if (x in (-1, msx)) and not isx:
                        ctx.monitor_fail('left/right boundary plaquette is not X type', {'code': tag, 'index': list(i)})
                    if (y in (-1, msy)) and not isz:
                        ctx.monitor_fail('top/bottom boundary plaquette is not Z type', {'code': tag, 'index': list(i)})
                if 0 <= x < msx and 0 <= y < msy and not inplaq:
                    ctx.monitor_fail('bulk plaquette not in plaquette bounds', {'code': tag, 'index': list(i)})
                on_edge = x == -1 or x == msx or y == -1 or y == msy
                if isvirt != (on_edge and not inplaq) or (isvirt and inplaq):
                    ctx.monitor_fail('is_virtual_plaquette inconsistent with is_in_plaquette_bounds',
                                     {'code': tag, 'index': list(i)})
        if sorted(flats) != list(range(n)):
            ctx.monitor_fail('lattice-index <-> qubit map is not a bijection onto range(n)', {'code': tag})
        if inb_set != set(real):
            ctx.monitor_fail('_plaquette_indices is not exactly the set of in-bounds plaquettes',
                             {'code': tag, 'missing': sorted(inb_set - set(real)), 'extra': sorted(set(real) - inb_set)})
        nz = sum(1 for i in real if code.is_z_plaquette(i))
        if any(not code.is_z_plaquette(i) for i in real[:nz]) or any(code.is_z_plaquette(i) for i in real[nz:]):
            ctx.monitor_fail('_plaquette_indices is not z-plaquettes followed by x-plaquettes', {'code': tag})
        # logical operators: documented support (X along the bottom row, Z along the last column)
        lx = _support(code, code.new_pauli().logical_x())
        lz = _support(code, code.new_pauli().logical_z())
        if lx != {(x, 0): 'X' for x in range(msx + 1)} or lz != {(msx, y): 'Z' for y in range(msy + 1)}:
            ctx.monitor_fail('logical operator does not have its documented support', {'code': tag})
        # syndrome-bit round trip
        for k, i in enumerate(real):
            unit = np.zeros(len(real), dtype=int); unit[k] = 1
            back = code.syndrome_to_plaquette_indices(unit)
            ctx.case(P + 's2p {} {} {}'.format(R, C, bits(unit)), idxlist(sorted(back)), nontrivial=True)
            if back != {i}:
                ctx.monitor_fail('syndrome bit does not map back to its plaquette', {'code': tag, 'bit': k})
        for _ in range(3):
            s = np.array([rng.randint(0, 1) for _ in real])
            back = code.syndrome_to_plaquette_indices(s)
            ctx.case(P + 's2p {} {} {}'.format(R, C, bits(s)), idxlist([i for i in real if i in back]))
            if not back <= set(real) or len(back) != int(s.sum()):
                ctx.monitor_fail('syndrome_to_plaquette_indices returns a wrong number of plaquettes', {'code': tag})
        # syndrome of a single-site error = exactly the adjacent plaquettes of the other type
        S = code.stabilizers
        for _ in range(6):
            x, y = rng.randint(0, msx), rng.randint(0, msy)
            for op in 'XZ':
                e = code.new_pauli().site(op, (x, y)).to_bsf()
                syn = common.bsp(e, S)[0]
                got = code.syndrome_to_plaquette_indices(syn)
                adj = {a for a in [(x, y), (x - 1, y), (x, y - 1), (x - 1, y - 1)] if code.is_in_plaquette_bounds(a)}
                want = {a for a in adj if (code.is_z_plaquette(a) if op == 'X' else code.is_x_plaquette(a))}
                if got != want:
                    ctx.monitor_fail('single-site error syndrome is not its adjacent opposite-type plaquettes',
                                     {'code': tag, 'site': [x, y], 'op': op})

    grid = c07_sizes(bound, ctx.tier)
    common.grid_report(ctx, NAME, grid)
    for (R, C) in grid:
        common.per_size(ctx, NAME, (R, C), lambda: RotatedPlanarCode(R, C), one_size)
    # constructor domain
    U = common.ctor_universe()
    for (a, ta), (b, tb) in itertools.product(U, U):
        ctx.case('rotatedplanar ctor {} {}'.format(ta, tb), common.ctor_outcome(lambda: RotatedPlanarCode(a, b)),
                 nontrivial=True, meta={'tag': 'ctor'})
