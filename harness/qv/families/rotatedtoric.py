"""rotated toric family: correspondence cases for C07 (code validity / index map) and C15 (paths), plus direct monitors

conventions of the real code: size = (rows, columns), indices are (x, y) with x over columns and y over rows; every
integer pair is both a site and a plaquette index, everything is periodic (`_mod_index`), there are no IndexErrors
except `translation`/`path` between plaquettes of different type; `_flatten_site_index` asserts in-bounds.
"""
import itertools
import math

import numpy as np

from qv.core import bits, mat
from qv.families import common

NAME = 'rotatedtoric'

# natural size parameter: even rows / columns only
C07_BOUND = {'quick': 6, 'thorough': 10}
C15_BOUND = {'quick': 6, 'thorough': 8}

MARGIN = 2


def sizes(bound, minimal=2):
    ev = [s for s in range(minimal, bound + 1) if s % 2 == 0]
    return [(r, c) for r in ev for c in ev]


def idx(i):
    return '{},{}'.format(int(i[0]), int(i[1]))


def idxlist(l):
    return ';'.join(idx(i) for i in l) if l else '_'


def margin_indices(code, margin=MARGIN):
    mx, my = code.bounds
    return [(x, y) for y in range(-margin, my + margin + 1) for x in range(-margin, mx + margin + 1)]


def c07_sizes(bound, tier):
    """the even square grid [2..bound]^2 (holds rows >= 2 cols and cols >= 2 rows as soon as bound >= 4) plus strips beyond
    it: narrow side 2 or 4, long side the even values bound+2 .. 14 (quick) / 20 (thorough), both orientations"""
    return sizes(bound) + common.strips(range(2, 64, 2), bound, 14 if tier == 'quick' else 20)


def c07_cases(ctx, bound):
    from qecsim.models.rotatedtoric import RotatedToricCode

    def one_size(code, R, C):
        tag = 'rotatedtoric {}x{}'.format(R, C)
        ctx.case('rotatedtoric nkd {} {}'.format(R, C), '{} {} {}'.format(*code.n_k_d), meta={'tag': tag})
        ctx.case('rotatedtoric stabs {} {}'.format(R, C), mat(code.stabilizers), meta={'tag': tag})
        ctx.case('rotatedtoric lx {} {}'.format(R, C), mat(code.logical_xs), meta={'tag': tag})
        ctx.case('rotatedtoric lz {} {}'.format(R, C), mat(code.logical_zs), meta={'tag': tag})
        ctx.case('rotatedtoric plaqidx {} {}'.format(R, C), idxlist(code._plaquette_indices), meta={'tag': tag})
        ctx.case('rotatedtoric bounds {} {}'.format(R, C), idx(code.bounds), meta={'tag': tag})
        common.code_monitor(ctx, code, tag)
        ctx.count('rotatedtoric_size', '{}x{}'.format(R, C))
        n = code.n_k_d[0]
        flats = []
        # index map: every index in a margin around the lattice
        for i in margin_indices(code):
            ctx.case('rotatedtoric kinds ' + idx(i), '{}{}'.format(
                int(code.is_x_plaquette(i)), int(code.is_z_plaquette(i))), nontrivial=False)
            ctx.case('rotatedtoric inb {} {} {}'.format(R, C, idx(i)), str(int(code.is_in_bounds(i))),
                     nontrivial=False)
            p = code.new_pauli()
            try:
                f = str(int(p._flatten_site_index(i)))
                flats.append(int(f))
            except AssertionError:
                f = 'AssertionError'
            ctx.case('rotatedtoric flat {} {} {}'.format(R, C, idx(i)), f, meta={'tag': tag})
            m = p._mod_index(i)
            ctx.case('rotatedtoric mod {} {} {}'.format(R, C, idx(i)), idx(m), meta={'tag': tag})
            if not code.is_in_bounds(m) or (code.is_in_bounds(i) and tuple(m) != tuple(i)):
                ctx.monitor_fail('_mod_index does not land in bounds / moves an in-bounds index',
                                 {'code': tag, 'index': list(i)})
            # site / operator read-back / to_bsf agree through the (periodic) bijection
            for op in 'XYZ':
                q = code.new_pauli().site(op, i)
                v = q.to_bsf()
                if q.operator(i) != op or q.operator(m) != op:
                    ctx.monitor_fail('site/operator read-back disagree', {'code': tag, 'index': list(i)})
                fm = int(q._flatten_site_index(m))
                want = np.zeros(2 * n, dtype=int)
                if op in 'XY':
                    want[fm] = 1
                if op in 'ZY':
                    want[n + fm] = 1
                if not np.array_equal(v, want):
                    ctx.monitor_fail('site does not toggle exactly the flattened (mod) index',
                                     {'code': tag, 'index': list(i), 'op': op})
                ctx.case('rotatedtoric site {} {} {} {}'.format(R, C, op, idx(i)), bits(v), meta={'tag': tag})
            ctx.case('rotatedtoric plaq {} {} {}'.format(R, C, idx(i)),
                     bits(code.new_pauli().plaquette(i).to_bsf()), meta={'tag': tag})
        if sorted(flats) != list(range(n)):
            ctx.monitor_fail('lattice-index <-> qubit map is not a bijection onto range(n)', {'code': tag})

    grid = c07_sizes(bound, ctx.tier)
    common.grid_report(ctx, NAME, grid)
    for (R, C) in grid:
        common.per_size(ctx, NAME, (R, C), lambda: RotatedToricCode(R, C), one_size)
    # constructor domain
    U = common.ctor_universe()
    for (a, ta), (b, tb) in itertools.product(U, U):
        ctx.case('rotatedtoric ctor {} {}'.format(ta, tb), common.ctor_outcome(lambda: RotatedToricCode(a, b)),
                 nontrivial=True, meta={'tag': 'ctor'})


def real_path_sites(code, a, b):
    """the `path_indices` the REAL `path` hands to `site` (recorded by shadowing `site` on the instance)"""
    p = code.new_pauli()
    rec = []

    def recorder(operator, *indices):
        rec.append((operator, [(int(i[0]), int(i[1])) for i in indices]))
        return p
    p.site = recorder
    p.path(a, b)
    ops = {o for o, _ in rec}
    return [i for _, l in rec for i in l], ops


LOG3 = math.log(3)


def c15_cases(ctx, bound, pair_budget=None):
    from qecsim.models.rotatedtoric import RotatedToricCode, RotatedToricSMWPMDecoder as Dec
    rng = ctx.rng
    for (R, C) in sizes(bound):
        code = RotatedToricCode(R, C)
        tag = 'rotatedtoric {}x{}'.format(R, C)
        S = code.stabilizers
        n = code.n_k_d[0]
        real = list(code._plaquette_indices)
        pidx = {i: k for k, i in enumerate(real)}
        ref = code.new_pauli()

        def modi(i):
            m = ref._mod_index(i)
            return (int(m[0]), int(m[1]))

        pairs = [(a, b) for a in real for b in real if code.is_z_plaquette(a) == code.is_z_plaquette(b)]
        if pair_budget and len(pairs) > pair_budget:
            pairs = rng.sample(pairs, pair_budget)
            ctx.count('rotatedtoric_pairs_sampled', tag)
        else:
            ctx.count('rotatedtoric_pairs_all', tag)
        # plus pairs of (possibly out-of-lattice, possibly different-type) indices in a margin: periodic wrap,
        # IndexError, a == b, a != b but congruent
        marg = margin_indices(code)
        extra = [(rng.choice(marg), rng.choice(marg)) for _ in range(150)]
        for a in rng.sample(marg, min(len(marg), 12)):
            extra += [(a, a), (a, (a[0] + C, a[1])), (a, (a[0], a[1] - R)), ((a[0] - C, a[1] + R), a),
                      (a, (a[0] + 1, a[1])), (a, (a[0], a[1] + 1)), (a, (a[0] + C // 2, a[1] + R // 2)),
                      (a, (a[0] - C // 2, a[1] + R // 2)), (a, (a[0] + C // 2, a[1])), (a, (a[0], a[1] - R // 2))]
        for a, b in pairs + extra:
            is_real = a in pidx and b in pidx
            args = '{} {} {} {}'.format(R, C, idx(a), idx(b))
            try:
                t = code.translation(a, b)
                ts = idx(t)
            except IndexError:
                t, ts = None, 'IndexError'
            ctx.case('rotatedtoric trans ' + args, ts, nontrivial=(a != b))
            try:
                v = code.new_pauli().path(a, b).to_bsf()
                vs = bits(v)
            except IndexError:
                v, vs = None, 'IndexError'
            ctx.case('rotatedtoric path ' + args, vs, nontrivial=(a != b), meta={'tag': tag})
            try:
                ps, ops = real_path_sites(code, a, b)
                pss = idxlist(ps)
            except IndexError:
                ps, ops, pss = None, set(), 'IndexError'
            ctx.case('rotatedtoric pathsites ' + args, pss, nontrivial=(a != b), meta={'tag': tag})
            ctx.case('rotatedtoric pathsitescf ' + args, pss, nontrivial=(a != b), meta={'tag': tag})
            same_type = code.is_z_plaquette(a) == code.is_z_plaquette(b)
            if not same_type:
                if (a != b and v is not None) or t is not None:
                    ctx.monitor_fail('no IndexError between plaquettes of different type',
                                     {'code': tag, 'a': list(a), 'b': list(b)})
                continue
            if t is None or v is None or ps is None:
                ctx.monitor_fail('IndexError between plaquettes of the same type',
                                 {'code': tag, 'a': list(a), 'b': list(b)})
                continue
            # ---- the property itself on the real code
            ma, mb = modi(a), modi(b)
            syn = common.bsp(v, S)[0]
            want = np.zeros(len(real), dtype=int)
            if ma != mb:
                want[pidx[ma]] ^= 1
                want[pidx[mb]] ^= 1
            if not np.array_equal(syn, want):
                ctx.monitor_fail('path does not anticommute with exactly its (periodic) endpoints',
                                 {'code': tag, 'a': list(a), 'b': list(b), 'syndrome': bits(syn),
                                  'expected': bits(want)})
            wt = int(((v[:n] + v[n:]) > 0).sum())
            tx, ty = int(t[0]), int(t[1])
            steps = max(abs(tx), abs(ty))
            if a == b:
                steps = 0
            if wt != steps or len(ps) != steps:
                ctx.monitor_fail('path weight differs from max(|dx|,|dy|) of the translation',
                                 {'code': tag, 'a': list(a), 'b': list(b), 'weight': wt, 'translation': [tx, ty]})
            want_op = 'X' if code.is_z_plaquette(a) else 'Z'
            if ops - {want_op} or (v[n:].any() if want_op == 'X' else v[:n].any()):
                ctx.monitor_fail('path operator type is not X between z-plaquettes / Z between x-plaquettes',
                                 {'code': tag, 'a': list(a), 'b': list(b)})
            if is_real:
                # SMWPM decoder distance: with eta = 1/2 (depolarizing) and p = 1 every step (parallel or diagonal)
                # weighs log 3, so _distance / log 3 is the decoder's step count; both orientations
                for by_row in (True, False):
                    an, bn = ((0, a[0], a[1]), by_row), ((0, b[0], b[1]), by_row)
                    d = Dec._distance(code, 1, an, bn, 1, None, 0.5) / LOG3
                    if abs(d - wt) > 1e-9:
                        ctx.monitor_fail('path weight differs from the decoder distance (eta=1/2 step count)',
                                         {'code': tag, 'a': list(a), 'b': list(b), 'weight': wt, 'distance': d,
                                          'by_row': by_row})
                    # infinite bias: defined along a line only, there it is the number of parallel steps
                    if (a[1] == b[1]) if by_row else (a[0] == b[0]):
                        d = Dec._distance(code, 1, an, bn)
                        if d != wt:
                            ctx.monitor_fail('path weight differs from the decoder distance (infinite bias)',
                                             {'code': tag, 'a': list(a), 'b': list(b), 'weight': wt,
                                              'distance': int(d), 'by_row': by_row})
            tb = code.translation(b, a)
            if abs(tx) != abs(int(tb[0])) or abs(ty) != abs(int(tb[1])):
                ctx.monitor_fail('translation length not symmetric', {'code': tag, 'a': list(a), 'b': list(b)})
            if modi((a[0] + tx, a[1] + ty)) != mb:
                ctx.monitor_fail('translation does not lead from a to b modulo the period',
                                 {'code': tag, 'a': list(a), 'b': list(b), 'translation': [tx, ty]})
            if 2 * abs(tx) > C or 2 * abs(ty) > R:
                ctx.monitor_fail('translation is not the shorter way round', {'code': tag, 'a': list(a), 'b': list(b),
                                                                             'translation': [tx, ty]})
        # fixed IndexError / degenerate cases
        for a, b in [((0, 0), (0, 1)), ((0, 1), (0, 0)), ((0, 1), (1, 0)), ((1, 0), (0, 1)), ((1, 0), (0, 0)),
                     ((0, 0), (0, 0)), ((1, 0), (1, 0)), ((-1, 0), (C, 0)), ((0, 0), (C, R))]:
            for op, f in (('trans', lambda: idx(code.translation(a, b))),
                          ('path', lambda: bits(code.new_pauli().path(a, b).to_bsf())),
                          ('pathsites', lambda: idxlist(real_path_sites(code, a, b)[0]))):
                try:
                    v = f()
                except IndexError:
                    v = 'IndexError'
                ctx.case('rotatedtoric {} {} {} {} {}'.format(op, R, C, idx(a), idx(b)), v, nontrivial=False)
        # plaquette support (documented (x,y),(x,y+1),(x+1,y+1),(x+1,y), periodic) and syndrome-bit round trip
        mx, my = code.bounds
        for k, i in enumerate(real):
            q = code.new_pauli().plaquette(i)
            x, y = i
            sup = {modi(s) for s in [(x, y), (x, y + 1), (x + 1, y + 1), (x + 1, y)]}
            op = 'Z' if code.is_z_plaquette(i) else 'X'
            got = {(xx, yy) for xx in range(mx + 1) for yy in range(my + 1) if q.operator((xx, yy)) != 'I'}
            if got != sup or len(sup) != 4 or any(q.operator(s) != op for s in sup):
                ctx.monitor_fail('plaquette operator does not have its documented support',
                                 {'code': tag, 'index': list(i)})
            ctx.case('rotatedtoric plaq {} {} {}'.format(R, C, idx(i)), bits(q.to_bsf()), meta={'tag': tag})
            unit = np.zeros(len(real), dtype=int); unit[k] = 1
            back = code.syndrome_to_plaquette_indices(unit)
            ctx.case('rotatedtoric s2p {} {} {}'.format(R, C, bits(unit)), idxlist(sorted(back)), nontrivial=True)
            if back != {i}:
                ctx.monitor_fail('syndrome bit does not map back to its plaquette', {'code': tag, 'bit': k})
        for _ in range(3):
            s = np.array([rng.randint(0, 1) for _ in real])
            back = code.syndrome_to_plaquette_indices(s)
            ctx.case('rotatedtoric s2p {} {} {}'.format(R, C, bits(s)), idxlist([i for i in real if i in back]))
            if {pidx[i] for i in back} != set(int(k) for k in s.nonzero()[0]):
                ctx.monitor_fail('syndrome does not map back to its plaquettes', {'code': tag, 'syndrome': bits(s)})
        # mates: the decoder's recovery from matched pairs (`_recovery_tparities` xors the paths of consecutive
        # same-type cluster members: x pairs first, then z pairs)
        zs = [i for i in real if code.is_z_plaquette(i)]
        xs = [i for i in real if code.is_x_plaquette(i)]
        for _ in range(4):
            xp = [(rng.choice(xs), rng.choice(xs)) for _ in range(rng.randint(0, 3))]
            zp = [(rng.choice(zs), rng.choice(zs)) for _ in range(rng.randint(0, 3))]
            mixed = xp + zp
            rng.shuffle(mixed)
            cluster = [(0, i[0], i[1]) for ab in mixed for i in ab]
            op, xtp, ztp = Dec._recovery_tparities(code, 1, [cluster])
            order = [ab for ab in mixed if code.is_x_plaquette(ab[0])] + \
                    [ab for ab in mixed if code.is_z_plaquette(ab[0])]
            wire = ';'.join('{}>{}'.format(idx(a), idx(b)) for a, b in order) if order else '_'
            ctx.case('rotatedtoric mates {} {} {}'.format(R, C, wire), bits(op), nontrivial=bool(order))
            syn = common.bsp(op, S)[0]
            want = np.zeros(len(real), dtype=int)
            for a, b in order:
                if a != b:
                    want[pidx[a]] ^= 1
                    want[pidx[b]] ^= 1
            if not np.array_equal(syn, want) or xtp or ztp:
                ctx.monitor_fail('recovery from mates does not have the syndrome of the matched plaquettes',
                                 {'code': tag, 'mates': wire})
