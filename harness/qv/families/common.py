"""shared helpers for lattice families: GF(2) rank, commutation monitors, constructor value universe"""
import numpy as np

from qv.core import bits, mat


def gf2_rank(M):
    M = np.array(M, dtype=np.uint8) % 2
    if M.size == 0:
        return 0
    M = M.copy(); r = 0
    rows, cols = M.shape
    for c in range(cols):
        piv = None
        for i in range(r, rows):
            if M[i, c]:
                piv = i; break
        if piv is None:
            continue
        M[[r, piv]] = M[[piv, r]]
        for i in range(rows):
            if i != r and M[i, c]:
                M[i] ^= M[r]
        r += 1
        if r == rows:
            break
    return r


def bsp(A, B):
    """symplectic product matrix of row sets A, B (independent re-implementation)"""
    A = np.atleast_2d(np.array(A, dtype=int)); B = np.atleast_2d(np.array(B, dtype=int))
    n = A.shape[1] // 2
    return (A[:, :n].dot(B[:, n:].T) + A[:, n:].dot(B[:, :n].T)) % 2


# constructor value universe: (python value, wire token)
def ctor_universe():
    import numpy as _np
    return [(-1, 'i-1'), (0, 'i0'), (1, 'i1'), (2, 'i2'), (3, 'i3'), (4, 'i4'), (5, 'i5'), (6, 'i6'), (7, 'i7'),
            (True, 'bT'), (False, 'bF'), (3.0, 'f3/1'), (2.5, 'f5/2'), ('3', 's'), (None, 'n'),
            (_np.int64(4), 'i4'), (_np.int32(5), 'i5')]


def ctor_outcome(f):
    try:
        f(); return 'ok'
    except ValueError:
        return 'ValueError'
    except TypeError:
        return 'TypeError'
    except Exception as ex:
        return type(ex).__name__


def code_monitor(ctx, code, tag):
    """C07's statement evaluated directly on the real matrices (independent of the Lean model):
    commutation, pairing, rank n-k, logical independence, n/k vs shapes"""
    S, Lx, Lz = np.atleast_2d(code.stabilizers), np.atleast_2d(code.logical_xs), np.atleast_2d(code.logical_zs)
    n, k, d = code.n_k_d
    bad = []
    if S.shape[1] != 2 * n or Lx.shape != (k, 2 * n) or Lz.shape != (k, 2 * n):
        bad.append('n/k disagree with matrix shapes')
    if bsp(S, S).any():
        bad.append('stabilizers do not mutually commute')
    if bsp(S, Lx).any() or bsp(S, Lz).any():
        bad.append('stabilizers do not commute with logicals')
    if not np.array_equal(bsp(Lx, Lz), np.identity(k, dtype=int)) or bsp(Lx, Lx).any() or bsp(Lz, Lz).any():
        bad.append('logical pairing is not canonical')
    r = gf2_rank(S)
    if r != n - k:
        bad.append('stabilizer rank {} != n-k = {}'.format(r, n - k))
    if gf2_rank(np.vstack((S, Lx, Lz))) != r + 2 * k:
        bad.append('logicals not independent of stabilizers')
    for b in bad:
        ctx.monitor_fail('C07 fails on the real code: ' + b, {'code': tag, 'n_k_d': list(code.n_k_d)})
    return not bad
