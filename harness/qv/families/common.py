"""shared helpers for lattice families: GF(2) rank, commutation monitors, constructor value universe"""
import numpy as np

from qv.core import bits, mat


def gf2_rank(M):
    M = np.array(M, dtype=np.uint8) % 2
    if M.size == 0:
        return 0
    M = M.copy(); r = 0
    rows, cols = M.shape
    for c in range(cols):
        piv = None
        for i in range(r, rows):
            if M[i, c]:
                piv = i; break
        if piv is None:
            continue
        M[[r, piv]] = M[[piv, r]]
        for i in range(rows):
            if i != r and M[i, c]:
                M[i] ^= M[r]
        r += 1
        if r == rows:
            break
    return r


def bsp(A, B):
    """symplectic product matrix of row sets A, B (independent re-implementation)"""
    A = np.atleast_2d(np.array(A, dtype=int)); B = np.atleast_2d(np.array(B, dtype=int))
    n = A.shape[1] // 2
    return (A[:, :n].dot(B[:, n:].T) + A[:, n:].dot(B[:, :n].T)) % 2


# constructor value universe: (python value, wire token)
def ctor_universe():
    import numpy as _np
    return [(-1, 'i-1'), (0, 'i0'), (1, 'i1'), (2, 'i2'), (3, 'i3'), (4, 'i4'), (5, 'i5'), (6, 'i6'), (7, 'i7'),
            (True, 'bT'), (False, 'bF'), (3.0, 'f3/1'), (2.5, 'f5/2'), ('3', 's'), (None, 'n'),
            (_np.int64(4), 'i4'), (_np.int32(5), 'i5')]


def ctor_outcome(f):
    try:
        f(); return 'ok'
    except ValueError:
        return 'ValueError'
    except TypeError:
        return 'TypeError'
    except Exception as ex:
        return type(ex).__name__


def code_monitor(ctx, code, tag):
    """C07's statement evaluated directly on the real matrices (independent of the Lean model):
    commutation, pairing, rank n-k, logical independence, n/k vs shapes"""
    S, Lx, Lz = np.atleast_2d(code.stabilizers), np.atleast_2d(code.logical_xs), np.atleast_2d(code.logical_zs)
    n, k, d = code.n_k_d
    bad = []
    if S.shape[1] != 2 * n or Lx.shape != (k, 2 * n) or Lz.shape != (k, 2 * n):
        bad.append('n/k disagree with matrix shapes')
    if bsp(S, S).any():
        bad.append('stabilizers do not mutually commute')
    if bsp(S, Lx).any() or bsp(S, Lz).any():
        bad.append('stabilizers do not commute with logicals')
    if not np.array_equal(bsp(Lx, Lz), np.identity(k, dtype=int)) or bsp(Lx, Lx).any() or bsp(Lz, Lz).any():
        bad.append('logical pairing is not canonical')
    r = gf2_rank(S)
    if r != n - k:
        bad.append('stabilizer rank {} != n-k = {}'.format(r, n - k))
    if gf2_rank(np.vstack((S, Lx, Lz))) != r + 2 * k:
        bad.append('logicals not independent of stabilizers')
    for b in bad:
        ctx.monitor_fail('C07 fails on the real code: ' + b, {'code': tag, 'n_k_d': list(code.n_k_d)})
    return not bad


# ----------------------------------------------------------------------------------------------- published data, guarded
#
# C07 promises, for EVERY constructible code, a set of published data.  Every access the C07 harness makes to it goes
# through `published` (eagerly, each access on its own): an exception becomes a concrete monitor failure
# 'constructible code … raises …' with {family, size, call} and the run continues with the next access / size.

PUBLISHED = ('n_k_d', 'stabilizers', 'logical_xs', 'logical_zs', 'logicals', 'validate()', 'new_pauli()', 'label',
             'repr()', '==', 'hash()')
CORE = ('n_k_d', 'stabilizers', 'logical_xs', 'logical_zs')


def _src():
    import os
    from qv.core import REPO
    return os.path.realpath(os.path.join(REPO, 'src'))


def from_qecsim(tb):
    """does the traceback pass through the qecsim sources under test?"""
    import os
    import traceback
    src = _src()
    return any(os.path.realpath(fr.filename).startswith(src) for fr in traceback.extract_tb(tb))


def where_raised(tb):
    """(harness source line that made the call, 'file:line function' of the innermost qecsim frame)"""
    import os
    import traceback
    src = _src()
    call = inner = None
    for fr in traceback.extract_tb(tb):
        if os.path.realpath(fr.filename).startswith(src):
            inner = '{}:{} {}'.format(os.path.relpath(os.path.realpath(fr.filename), src), fr.lineno, fr.name)
        elif inner is None:
            call = (fr.line or '').strip()
    return call, inner


def size_text(size):
    return 'x'.join(str(int(s)) for s in size) if len(size) else ''


def report_raises(ctx, family, size, call, ex, how=None, tb=None):
    """one monitor failure per (family, size, call)"""
    seen = ctx.__dict__.setdefault('_c07_raises_reported', set())
    k = (family, tuple(size), call)
    if k in seen:
        return
    seen.add(k)
    inp = {'family': family, 'size': [int(s) for s in size], 'call': call, 'error': repr(ex)[:300]}
    if how:
        inp['how'] = how
    if tb is not None:
        line, inner = where_raised(tb)
        if inner:
            inp['raised_in'] = inner
        if line and line != call:
            inp['harness_line'] = line
    ctx.monitor_fail('constructible code {} {} raises {} from {}'.format(family, size_text(size), type(ex).__name__,
                                                                          call), inp)
    ctx.count('c07_published_raises', '{} {}'.format(family, call))


class Published:
    """what one constructible code publishes; `ok` iff the constructor and the core data (n_k_d, stabilizers,
    logical_xs, logical_zs) answered; `failed` lists every access that raised"""

    def __init__(self, family, size):
        self.family, self.size, self.code, self.failed = family, tuple(size), None, []
        self.values = {}

    @property
    def ok(self):
        return self.code is not None and not any(c in self.failed for c in CORE)

    @property
    def all_ok(self):
        return self.code is not None and not self.failed


def published(ctx, family, size, build, lattice=True):
    """construct the code of `size` and read everything it publishes, each access guarded; value monitors on what
    the accesses return (shapes of n_k_d, logicals = logical_xs over logical_zs, identity new_pauli, ==/hash of an
    equal code)"""
    import numbers
    import sys
    pub = Published(family, size)
    tag = '{} {}'.format(family, size_text(size))

    def get(call, f, how):
        try:
            v = f()
        except Exception as ex:  # noqa: B902 — every exception is a failure of the property here
            pub.failed.append(call)
            report_raises(ctx, family, size, call, ex, how=how, tb=sys.exc_info()[2])
            return False, None
        pub.values[call] = v
        return True, v
    ok, code = get('constructor', build, 'Code({})'.format(', '.join(str(s) for s in size)))
    if not ok:
        return pub
    pub.code = code
    cls = type(code).__name__
    ctor = '{}({})'.format(cls, ', '.join(str(int(s)) for s in size))
    for name in ('n_k_d', 'stabilizers', 'logical_xs', 'logical_zs', 'logicals', 'label'):
        get(name, lambda name=name: getattr(code, name), '{}.{}'.format(ctor, name))
    get('validate()', code.validate, ctor + '.validate()')
    if lattice:      # new_pauli is published by the lattice families only (not part of StabilizerCode)
        get('new_pauli()', lambda: np.array(code.new_pauli().to_bsf()), ctor + '.new_pauli().to_bsf()')
    get('repr()', lambda: repr(code), 'repr({})'.format(ctor))
    ok2, other = get('constructor', build, ctor)
    if ok2:
        get('==', lambda: (code == other, code != other), '{0} == {0}'.format(ctor))
        get('hash()', lambda: (hash(code), hash(other)), 'hash({})'.format(ctor))
    ctx.count('c07_published', 'all accesses answer' if pub.all_ok else 'some access raises')
    # ---- value monitors on what was returned
    v = pub.values
    bad = []
    nkd = v.get('n_k_d')
    n = k = None
    if 'n_k_d' in v:
        if not (isinstance(nkd, tuple) and len(nkd) == 3 and all(isinstance(x, numbers.Integral) for x in nkd[:2])):
            bad.append(('n_k_d', 'n_k_d = {!r} is not a triple with integral n and k'.format(nkd)))
        else:
            n, k = int(nkd[0]), int(nkd[1])
    for name in ('stabilizers', 'logical_xs', 'logical_zs', 'logicals'):
        if name in v:
            M = np.asarray(v[name])
            if M.ndim != 2 or not set(np.unique(M).tolist()) <= {0, 1}:
                bad.append((name, '{} is not a binary matrix (ndim {}, values {})'.format(
                    name, M.ndim, np.unique(M).tolist()[:5])))
    if all(x in v for x in ('logicals', 'logical_xs', 'logical_zs')) and not bad:
        L = np.asarray(v['logicals']); want = np.vstack((np.atleast_2d(v['logical_xs']), np.atleast_2d(v['logical_zs'])))
        if L.shape != want.shape or not np.array_equal(L, want):
            bad.append(('logicals', 'logicals is not logical_xs stacked over logical_zs'))
        if k is not None and L.shape[0] != 2 * k:
            bad.append(('logicals', 'logicals has {} rows for k = {}'.format(L.shape[0], k)))
    if 'new_pauli()' in v and n is not None:
        b = np.asarray(v['new_pauli()'])
        if b.shape != (2 * n,) or b.any():
            bad.append(('new_pauli()', 'new_pauli() is not the identity on n = {} qubits (bsf length {}, weight {})'.format(
                n, b.size, int(b.sum()))))
    if 'label' in v and not (isinstance(v['label'], str) and v['label']):
        bad.append(('label', 'label = {!r} is not a non-empty string'.format(v['label'])))
    if '==' in v and (v['=='][0] is not True or v['=='][1] is not False):
        bad.append(('==', 'two codes of the same size: == gives {!r}, != gives {!r}'.format(*v['=='])))
    if 'hash()' in v and '==' in v and v['=='][0] is True and v['hash()'][0] != v['hash()'][1]:
        bad.append(('hash()', 'equal codes have different hashes'))
    for call, what in bad:
        ctx.monitor_fail('C07 fails on the real code: ' + what, {'family': family, 'size': [int(s) for s in size],
                                                                 'call': call, 'code': tag})
    return pub


def per_size(ctx, family, size, build, body):
    """the structural cases of one size, guarded: first everything the code publishes (`published`), then `body(code,
    *size)`; an exception raised inside qecsim while the body runs is a monitor failure naming the call, and the run
    continues with the next size"""
    import sys
    pub = published(ctx, family, size, build)
    if not pub.ok:
        ctx.count('c07_size_skipped_unpublished', '{} {}'.format(family, size_text(size)))
        return pub
    try:
        body(pub.code, *size)
    except Exception as ex:  # noqa: B902
        tb = sys.exc_info()[2]
        if not from_qecsim(tb):
            raise
        line, inner = where_raised(tb)
        report_raises(ctx, family, size, line or 'structural cases', ex, tb=tb)
    return pub


def strips(legal, bound, long_max, narrow=2):
    """tall-narrow and short-wide extremes BEYOND the square grid [min..bound]^2, in both orientations: the narrow side
    takes the `narrow` smallest legal values, the long side every legal value in (bound, long_max] — aspect ratios from
    2 up to long_max / min, both parities of either side"""
    legal = sorted(legal)
    small = legal[:narrow]
    longs = [v for v in legal if bound < v <= long_max]
    out = []
    for s in small:
        for l in longs:
            if l >= 2 * s:
                out += [(l, s), (s, l)]
    return out


def grid_report(ctx, family, sizes):
    """record the aspect-ratio coverage of a size grid in the evidence; Infra error if an orientation is missing"""
    from qv import core
    tall = [s for s in sizes if len(s) == 2 and s[0] >= 2 * s[1]]
    wide = [s for s in sizes if len(s) == 2 and s[1] >= 2 * s[0]]
    if sizes and len(sizes[0]) == 2 and (not tall or not wide):
        raise core.Infra('size grid of {} lacks tall-narrow or short-wide sizes'.format(family))
    if tall:
        ctx.extra.setdefault('c07_size_grids', {})[family] = {
            'sizes': len(sizes), 'rows>=2cols': len(tall), 'cols>=2rows': len(wide),
            'max_rows/cols': round(max(s[0] / s[1] for s in tall), 2),
            'max_cols/rows': round(max(s[1] / s[0] for s in wide), 2)}
