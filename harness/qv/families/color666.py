"""colour 6.6.6 family: correspondence cases for C07 (code validity / index map) plus direct monitors.

The family has no `path`/`translation`, so there is no C15 part.  The single size parameter is odd and >= 3;
bound b means sizes 3, 5, ..., b."""
import numpy as np

from qv.core import bits, mat
from qv.families import common

NAME = 'color666'

C07_BOUND = {'quick': 9, 'thorough': 17}

MARGIN = 2


def sizes(bound, minimal=3):
    return list(range(minimal, bound + 1, 2))


def idx(i):
    return '{},{}'.format(int(i[0]), int(i[1]))


def idxlist(l):
    return ';'.join(idx(i) for i in l) if l else '_'


def s2p(code, real, syndrome):
    """canonical rendering of syndrome_to_plaquette_indices: X-half list | Z-half list, each in index order"""
    xs, zs = code.syndrome_to_plaquette_indices(syndrome)
    return '{}|{}'.format(idxlist([i for i in real if i in xs]), idxlist([i for i in real if i in zs])), xs, zs


def neighbours(i):
    r, c = i
    return [(r - 1, c - 1), (r - 1, c), (r, c - 1), (r, c + 1), (r + 1, c), (r + 1, c + 1)]


def c07_sizes(bound, tier):
    """one size parameter (odd, >= 3): no aspect ratio"""
    return sizes(bound)


def c07_cases(ctx, bound):
    from qecsim.models.color import Color666Code
    rng = ctx.rng

    def one_size(code, L):
        tag = 'color666 {}'.format(L)
        n, k, d = code.n_k_d
        ctx.case('color666 nkd {}'.format(L), '{} {} {}'.format(n, k, d), meta={'tag': tag})
        ctx.case('color666 bound {}'.format(L), str(int(code.bound)), meta={'tag': tag})
        S = code.stabilizers
        ctx.case('color666 stabs {}'.format(L), mat(S), meta={'tag': tag})
        ctx.case('color666 lx {}'.format(L), bits(code.logical_xs[0]), meta={'tag': tag})
        ctx.case('color666 lz {}'.format(L), bits(code.logical_zs[0]), meta={'tag': tag})
        real = list(code._plaquette_indices)
        ctx.case('color666 plaqidx {}'.format(L), idxlist(real), meta={'tag': tag})
        common.code_monitor(ctx, code, tag)
        ctx.count('color666_size', str(L))
        # ---- direct monitors on the parameters (independent integer arithmetic)
        if (int(n), int(k), int(d)) != ((3 * L * L + 1) // 4, 1, L) or 4 * int(n) != 3 * L * L + 1:
            ctx.monitor_fail('n_k_d differs from ((3 size^2 + 1)/4, 1, size)', {'code': tag, 'n_k_d': [int(n), int(k), int(d)]})
        if 2 * int(code.bound) != 3 * (L - 1):
            ctx.monitor_fail('bound differs from 3 (size - 1) / 2', {'code': tag, 'bound': int(code.bound)})
        if len(S) != 2 * len(real) or len(real) != (int(n) - 1) // 2:
            ctx.monitor_fail('number of stabilizers is not 2 * #plaquettes = n - k', {'code': tag})
        # ---- index map: every index in a margin around the (square hull of the triangular) lattice
        b = int(code.bound)
        flats = []
        n_sites = 0
        for r in range(-MARGIN, b + MARGIN + 1):
            for c in range(-MARGIN, b + MARGIN + 1):
                i = (r, c)
                ctx.case('color666 kinds ' + idx(i), '{}{}'.format(int(code.is_plaquette(i)), int(code.is_site(i))),
                         nontrivial=False)
                ctx.case('color666 inb {} {}'.format(L, idx(i)), str(int(code.is_in_bounds(i))), nontrivial=False)
                if bool(code.is_plaquette(i)) == bool(code.is_site(i)):
                    ctx.monitor_fail('index is both / neither plaquette and site', {'code': tag, 'index': list(i)})
                p = code.new_pauli()
                try:
                    f = p._flatten_site_index(i)
                    if not isinstance(f, int):
                        ctx.monitor_fail('_flatten_site_index does not return an int', {'code': tag, 'index': list(i)})
                    flats.append(int(f))
                    f = str(f)
                except AssertionError:
                    f = 'AssertionError'
                ctx.case('color666 flat {} {}'.format(L, idx(i)), f, meta={'tag': tag})
                if code.is_site(i) and code.is_in_bounds(i):
                    n_sites += 1
                # site / operator read-back / to_bsf agree through the bijection
                for op in 'XYZ':
                    try:
                        q = code.new_pauli().site(op, i)
                        v = bits(q.to_bsf())
                        if code.is_in_bounds(i):
                            if q.operator(i) != op:
                                ctx.monitor_fail('site/operator read-back disagree', {'code': tag, 'index': list(i)})
                            w = q.to_bsf()
                            if int(w.sum()) != (2 if op == 'Y' else 1):
                                ctx.monitor_fail('single-site operator has wrong weight', {'code': tag, 'index': list(i)})
                        elif q.to_bsf().any():
                            ctx.monitor_fail('out-of-bounds site is not ignored', {'code': tag, 'index': list(i)})
                    except IndexError:
                        v = 'IndexError'
                    ctx.case('color666 site {} {} {}'.format(L, op, idx(i)), v, nontrivial=(v != 'IndexError'),
                             meta={'tag': tag})
                # operator() must reject everything that is not an in-bounds site
                if not (code.is_site(i) and code.is_in_bounds(i)):
                    try:
                        code.new_pauli().operator(i)
                        ctx.monitor_fail('operator() accepts an index that is not an in-bounds site',
                                         {'code': tag, 'index': list(i)})
                    except IndexError:
                        pass
                for op in 'XZ':
                    try:
                        v = bits(code.new_pauli().plaquette(op, i).to_bsf())
                    except IndexError:
                        v = 'IndexError'
                    ctx.case('color666 plaq {} {} {}'.format(L, op, idx(i)), v, meta={'tag': tag})
                try:
                    v = idx(code.virtual_plaquette_index(i))
                except IndexError:
                    v = 'IndexError'
                ctx.case('color666 virt {} {}'.format(L, idx(i)), v, nontrivial=(v != 'IndexError'), meta={'tag': tag})
        # operator read-back on random Paulis
        for _ in range(4):
            v = np.array([rng.randint(0, 1) for _ in range(2 * int(n))])
            q = code.new_pauli(v)
            for r in range(-1, b + 2):
                for c in range(-1, b + 2):
                    try:
                        o = q.operator((r, c))
                    except IndexError:
                        o = 'IndexError'
                    ctx.case('color666 opat {} {} {}'.format(L, bits(v), idx((r, c))), o, nontrivial=(o != 'IndexError'))
        if sorted(flats) != list(range(int(n))) or n_sites != int(n):
            ctx.monitor_fail('lattice-index <-> qubit map is not a bijection onto range(n)', {'code': tag})
        # Y plaquette on a few indices (operator argument is passed through unchanged)
        for i in real[:3] + real[-3:]:
            ctx.case('color666 plaq {} Y {}'.format(L, idx(i)), bits(code.new_pauli().plaquette('Y', i).to_bsf()),
                     meta={'tag': tag})
        # ---- plaquette support (six neighbours clipped to the lattice), stabilizer order, syndrome-bit round trip
        all_sites = [(rr, cc) for rr in range(b + 1) for cc in range(rr + 1) if code.is_site((rr, cc))]
        P = len(real)
        for kk, i in enumerate(real):
            sup = {s for s in neighbours(i) if code.is_in_bounds(s)}
            if len(sup) not in (4, 6):
                ctx.monitor_fail('plaquette does not have 4 or 6 in-lattice qubits', {'code': tag, 'index': list(i)})
            for half, op in ((0, 'X'), (1, 'Z')):
                q = code.new_pauli().plaquette(op, i)
                got = {s for s in all_sites if q.operator(s) != 'I'}
                if got != sup or any(q.operator(s) != op for s in sup):
                    ctx.monitor_fail('plaquette operator does not have its documented support',
                                     {'code': tag, 'index': list(i), 'operator': op})
                if not np.array_equal(S[half * P + kk], q.to_bsf()):
                    ctx.monitor_fail('stabilizer row is not the plaquette operator of its index',
                                     {'code': tag, 'index': list(i), 'operator': op})
                unit = np.zeros(2 * P, dtype=int); unit[half * P + kk] = 1
                txt, xs, zs = s2p(code, real, unit)
                ctx.case('color666 s2p {} {}'.format(L, bits(unit)), txt, nontrivial=True)
                if (xs, zs) != (({i}, set()) if half == 0 else (set(), {i})):
                    ctx.monitor_fail('syndrome bit does not map back to its plaquette', {'code': tag, 'bit': half * P + kk})
        for _ in range(3):
            s = np.array([rng.randint(0, 1) for _ in range(2 * P)])
            ctx.case('color666 s2p {} {}'.format(L, bits(s)), s2p(code, real, s)[0])
        ctx.case('color666 s2p {} {}'.format(L, bits(np.zeros(2 * P, dtype=int))),
                 s2p(code, real, np.zeros(2 * P, dtype=int))[0], nontrivial=False)
        # ---- logical operators: documented support (sites of column 0)
        col0 = {(rr, 0) for rr in range(b + 1) if code.is_site((rr, 0))}
        for op, q in (('X', code.new_pauli().logical_x()), ('Z', code.new_pauli().logical_z())):
            got = {s for s in all_sites if q.operator(s) != 'I'}
            if got != col0 or any(q.operator(s) != op for s in col0) or len(col0) != L:
                ctx.monitor_fail('logical operator does not have its documented support', {'code': tag, 'operator': op})

    grid = c07_sizes(bound, ctx.tier)
    for L in grid:
        common.per_size(ctx, NAME, (L,), lambda: Color666Code(L), one_size)
    # ---- constructor domain (one parameter)
    U = common.ctor_universe() + [(9, 'i9'), (-3, 'i-3'), (np.int64(3), 'i3'), (np.int64(2), 'i2'), (7.0, 'f7/1')]
    for a, ta in U:
        ctx.case('color666 ctor {}'.format(ta), common.ctor_outcome(lambda: Color666Code(a)),
                 nontrivial=True, meta={'tag': 'ctor'})
    for a in range(-4, 2 * bound + 4):
        out = common.ctor_outcome(lambda: Color666Code(a))
        ctx.case('color666 ctor i{}'.format(a), out, nontrivial=True, meta={'tag': 'ctor'})
        if (out == 'ok') != (a >= 3 and a % 2 == 1):
            ctx.monitor_fail('constructor accepts/rejects a size against the documented domain (odd >= 3)', {'size': a})
