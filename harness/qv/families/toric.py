"""toric family: correspondence cases for C07 (code validity / index map) and C15 (paths), plus direct monitors

Indices are 3-tuples (lattice, row, column); the real code reduces every index with np.mod(index, (2, rows, cols)),
so there are no out-of-bounds / IndexError cases for sites and plaquettes, and no virtual plaquettes.  The only
IndexError is raised by translation / path / distance for indices on different lattices (modulo 2).
"""
import itertools

import numpy as np

from qv.core import bits, mat
from qv.families import common

NAME = 'toric'


def sizes(bound, minimal=2):
    return [(r, c) for r in range(minimal, bound + 1) for c in range(minimal, bound + 1)]


def idx(i):
    return '{},{},{}'.format(int(i[0]), int(i[1]), int(i[2]))


def idx2(t):
    return '{},{}'.format(int(t[0]), int(t[1]))


def idxlist(l):
    return ';'.join(idx(i) for i in l) if l else '_'


def pairlist(l):
    return ';'.join('{}>{}'.format(idx(a), idx(b)) for a, b in l) if l else '_'


def margin(R, C):
    """every index in a margin around the lattice (two extra lattices / rows / columns on each side)"""
    return [(l, r, c) for l in range(-2, 4) for r in range(-2, R + 2) for c in range(-2, C + 2)]


def normalise(R, C, i):
    """independent statement of 'index modulo the lattice shape' (python floor-mod on plain ints)"""
    return (int(i[0]) % 2, int(i[1]) % R, int(i[2]) % C)


def random_bsf(rng, n):
    return np.array([rng.randint(0, 1) for _ in range(2 * n)], dtype=int)


def outcome(f):
    try:
        return f()
    except IndexError:
        return 'IndexError'


def c07_sizes(bound, tier):
    """the square grid [2..bound]^2 (holds rows >= 2 cols and cols >= 2 rows as soon as bound >= 4) plus strips beyond it:
    narrow side 2 or 3, long side bound+1 .. 12 (quick) / 16 (thorough), both orientations"""
    return sizes(bound) + common.strips(range(2, 64), bound, 12 if tier == 'quick' else 16)


def c07_cases(ctx, bound):
    from qecsim.models.toric import ToricCode
    rng = ctx.rng

    def one_size(code, R, C):
        tag = 'toric {}x{}'.format(R, C)
        n = code.n_k_d[0]
        ctx.case('toric nkd {} {}'.format(R, C), '{} {} {}'.format(*code.n_k_d), meta={'tag': tag})
        ctx.case('toric stabs {} {}'.format(R, C), mat(code.stabilizers), meta={'tag': tag})
        ctx.case('toric lx {} {}'.format(R, C), mat(code.logical_xs), meta={'tag': tag})
        ctx.case('toric lz {} {}'.format(R, C), mat(code.logical_zs), meta={'tag': tag})
        ctx.case('toric plaqidx {} {}'.format(R, C), idxlist(code._indices), meta={'tag': tag})
        common.code_monitor(ctx, code, tag)
        ctx.count('toric_size', '{}x{}'.format(R, C))
        # index map: every index in a margin around the lattice
        flat_of = {}
        rnd = random_bsf(rng, n)
        rnd_pauli = code.new_pauli(rnd)
        for i in margin(R, C):
            inside = (0 <= i[0] < 2 and 0 <= i[1] < R and 0 <= i[2] < C)
            # flat position of the site = the single X bit the real `site` sets
            v = code.new_pauli().site('X', i).to_bsf()
            nz = np.flatnonzero(v)
            if len(nz) != 1 or nz[0] >= n:
                ctx.monitor_fail('site X does not toggle exactly one X bit', {'code': tag, 'index': list(i)})
                continue
            f = int(nz[0])
            flat_of[i] = f
            ctx.case('toric flat {} {} {}'.format(R, C, idx(i)), str(f), nontrivial=inside, meta={'tag': tag})
            # site / operator read-back / to_bsf agree through the bijection
            for op in 'XYZ':
                q = code.new_pauli().site(op, i)
                if q.operator(i) != op or q.operator(normalise(R, C, i)) != op:
                    ctx.monitor_fail('site/operator read-back disagree', {'code': tag, 'index': list(i), 'op': op})
                ctx.case('toric site {} {} {} {}'.format(R, C, op, idx(i)), bits(q.to_bsf()), nontrivial=inside,
                         meta={'tag': tag})
            ctx.case('toric plaq {} {} {}'.format(R, C, idx(i)), bits(code.new_pauli().plaquette(i).to_bsf()),
                     nontrivial=inside, meta={'tag': tag})
            # operator read-back on a random Pauli
            ctx.case('toric opat {} {} {} {}'.format(R, C, bits(rnd), idx(i)), rnd_pauli.operator(i),
                     nontrivial=inside, meta={'tag': tag})
        inner = [flat_of[(l, r, c)] for l in range(2) for r in range(R) for c in range(C) if (l, r, c) in flat_of]
        if sorted(inner) != list(range(n)):
            ctx.monitor_fail('lattice-index <-> qubit map is not a bijection onto range(n)', {'code': tag})
        for i, f in flat_of.items():
            if f != flat_of.get(normalise(R, C, i)):
                ctx.monitor_fail('index is not taken modulo the lattice shape', {'code': tag, 'index': list(i)})
        # new_pauli(bsf) round trip through the (lattice, row, column) arrays
        if not np.array_equal(rnd_pauli.to_bsf(), rnd):
            ctx.monitor_fail('new_pauli(bsf).to_bsf() is not the identity', {'code': tag, 'bsf': bits(rnd)})

    grid = c07_sizes(bound, ctx.tier)
    common.grid_report(ctx, NAME, grid)
    for (R, C) in grid:
        common.per_size(ctx, NAME, (R, C), lambda: ToricCode(R, C), one_size)
    # constructor domain
    U = common.ctor_universe()
    for (a, ta), (b, tb) in itertools.product(U, U):
        ctx.case('toric ctor {} {}'.format(ta, tb), common.ctor_outcome(lambda: ToricCode(a, b)),
                 nontrivial=True, meta={'tag': 'ctor'})


def plaquette_support(R, C, i):
    """documented support of the plaquette indexed by its northern edge (independent statement)"""
    l, r, c = i
    if l == 0:
        sup = [(0, r, c), (0, r + 1, c), (1, r, c), (1, r, c + 1)]
    else:
        sup = [(1, r, c), (1, r + 1, c), (0, r + 1, c - 1), (0, r + 1, c)]
    return {normalise(R, C, s) for s in sup}


def c15_cases(ctx, bound, pair_budget=None):
    from qecsim.models.toric import ToricCode, ToricMWPMDecoder
    rng = ctx.rng
    for (R, C) in sizes(bound):
        code = ToricCode(R, C)
        tag = 'toric {}x{}'.format(R, C)
        S = code.stabilizers
        n = code.n_k_d[0]
        real = [tuple(int(x) for x in i) for i in code._indices]
        pidx = {i: k for k, i in enumerate(real)}
        pairs = [(a, b) for a in real for b in real if a[0] == b[0]]
        if pair_budget and len(pairs) > pair_budget:
            pairs = rng.sample(pairs, pair_budget)
            ctx.count('toric_pairs_sampled', tag)
        else:
            ctx.count('toric_pairs_all', tag)
        for a, b in pairs:
            v = code.new_pauli().path(a, b).to_bsf()
            ctx.case('toric path {} {} {} {}'.format(R, C, idx(a), idx(b)), bits(v), nontrivial=(a != b),
                     meta={'tag': tag})
            t = tuple(int(x) for x in code.translation(a, b))
            ctx.case('toric trans {} {} {} {}'.format(R, C, idx(a), idx(b)), idx2(t), nontrivial=(a != b))
            d = int(ToricMWPMDecoder.distance(code, a, b))
            ctx.case('toric dist {} {} {} {}'.format(R, C, idx(a), idx(b)), str(d), nontrivial=(a != b))
            # ---- the property itself on the real code
            syn = common.bsp(v, S)[0]
            want = np.zeros(len(real), dtype=int)
            if a != b:
                want[pidx[a]] ^= 1
                want[pidx[b]] ^= 1
            if not np.array_equal(syn, want):
                ctx.monitor_fail('path does not anticommute with exactly its endpoints',
                                 {'code': tag, 'a': list(a), 'b': list(b), 'syndrome': bits(syn), 'expected': bits(want)})
            wt = int(((v[:n] + v[n:]) > 0).sum())
            if wt != d:
                ctx.monitor_fail('path weight differs from the decoder distance',
                                 {'code': tag, 'a': list(a), 'b': list(b), 'weight': wt, 'distance': d})
            op_bad = v[n:].any() if a[0] == 0 else v[:n].any()
            if op_bad:
                ctx.monitor_fail('path uses the wrong operator type for its lattice', {'code': tag, 'a': list(a),
                                                                                       'b': list(b)})
            tb = tuple(int(x) for x in code.translation(b, a))
            if abs(t[0]) + abs(t[1]) != abs(tb[0]) + abs(tb[1]):
                ctx.monitor_fail('translation length not symmetric', {'code': tag, 'a': list(a), 'b': list(b)})
            if ((a[1] + t[0]) % R, (a[2] + t[1]) % C) != (b[1], b[2]):
                ctx.monitor_fail('translation does not lead from a to b modulo the period',
                                 {'code': tag, 'a': list(a), 'b': list(b), 'translation': list(t)})
            if 2 * abs(t[0]) > R or 2 * abs(t[1]) > C:
                ctx.monitor_fail('translation is not the shortest one', {'code': tag, 'a': list(a), 'b': list(b),
                                                                         'translation': list(t)})
        # indices outside the lattice (taken modulo the shape) and IndexError cases (different lattices)
        outer = [(l, r, c) for l in (-1, 0, 1, 2, 3) for r in (-R - 1, -1, 0, R - 1, R, 2 * R + 1)
                 for c in (-C - 1, -1, 0, C - 1, C, 2 * C + 1)]
        opairs = [(rng.choice(outer), rng.choice(outer)) for _ in range(120)]
        opairs += [((0, 0, 0), (1, 0, 0)), ((1, 0, 0), (0, 0, 0)), ((2, 1, 1), (1, 1, 1)), ((-1, 0, 0), (0, 0, 0)),
                   ((0, 0, 0), (0, 0, 0)), ((2, R, C), (0, 0, 0)), ((1, -1, -1), (3, R - 1, C - 1))]
        for a, b in opairs:
            same = (a[0] - b[0]) % 2 == 0
            pv = outcome(lambda: bits(code.new_pauli().path(a, b).to_bsf()))
            tv = outcome(lambda: idx2(code.translation(a, b)))
            dv = outcome(lambda: str(int(ToricMWPMDecoder.distance(code, a, b))))
            ctx.case('toric path {} {} {} {}'.format(R, C, idx(a), idx(b)), pv, nontrivial=same, meta={'tag': tag})
            ctx.case('toric trans {} {} {} {}'.format(R, C, idx(a), idx(b)), tv, nontrivial=same)
            ctx.case('toric dist {} {} {} {}'.format(R, C, idx(a), idx(b)), dv, nontrivial=same)
            if same:
                na, nb = normalise(R, C, a), normalise(R, C, b)
                if 'IndexError' in (pv, tv, dv) or pv != bits(code.new_pauli().path(na, nb).to_bsf()) \
                        or tv != idx2(code.translation(na, nb)):
                    ctx.monitor_fail('path/translation not invariant under index reduction modulo the shape',
                                     {'code': tag, 'a': list(a), 'b': list(b)})
            elif (pv, tv, dv) != ('IndexError',) * 3:
                ctx.monitor_fail('different lattices do not raise IndexError', {'code': tag, 'a': list(a),
                                                                                'b': list(b)})
        # plaquette support (documented N,S,W,E modulo the shape) and syndrome-bit round trip
        for k, i in enumerate(real):
            q = code.new_pauli().plaquette(i)
            sup = plaquette_support(R, C, i)
            op = 'Z' if i[0] == 0 else 'X'
            got = {s for s in real if q.operator(s) != 'I'}
            if got != sup or len(sup) != 4 or any(q.operator(s) != op for s in sup):
                ctx.monitor_fail('plaquette operator does not have its documented support', {'code': tag, 'index': list(i)})
            unit = np.zeros(len(real), dtype=int); unit[k] = 1
            back = code.syndrome_to_plaquette_indices(unit)
            ctx.case('toric s2p {} {} {}'.format(R, C, bits(unit)), idxlist(sorted(back)), nontrivial=True)
            if back != {i}:
                ctx.monitor_fail('syndrome bit does not map back to its plaquette', {'code': tag, 'bit': k})
        for _ in range(3):
            s = np.array([rng.randint(0, 1) for _ in real])
            back = code.syndrome_to_plaquette_indices(s)
            ctx.case('toric s2p {} {} {}'.format(R, C, bits(s)), idxlist([i for i in real if i in back]))
        # recovery = fold of path over a matching (what the MWPM decoder does with its mates)
        for _ in range(4):
            m = []
            for l in (0, 1):
                pl = [i for i in real if i[0] == l]
                rng.shuffle(pl)
                k = rng.randint(0, min(4, len(pl) // 2))
                m += [(pl[2 * j], pl[2 * j + 1]) for j in range(k)]
            rng.shuffle(m)
            p = code.new_pauli()
            for a, b in m:
                p.path(a, b)
            v = p.to_bsf()
            ctx.case('toric mates {} {} {}'.format(R, C, pairlist(m)), bits(v), nontrivial=bool(m), meta={'tag': tag})
            want = np.zeros(len(real), dtype=int)
            for a, b in m:
                want[pidx[a]] ^= 1
                want[pidx[b]] ^= 1
            if not np.array_equal(common.bsp(v, S)[0], want):
                ctx.monitor_fail('recovery from a matching does not have the matched plaquettes as syndrome',
                                 {'code': tag, 'mates': [[list(a), list(b)] for a, b in m]})
