"""planar family: correspondence cases for C07 (code validity / index map) and C15 (paths), plus direct monitors"""
import itertools

import numpy as np

from qv.core import bits, mat
from qv.families import common

NAME = 'planar'


def sizes(bound, minimal=2):
    return [(r, c) for r in range(minimal, bound + 1) for c in range(minimal, bound + 1)]


def idx(i):
    return '{},{}'.format(int(i[0]), int(i[1]))


def idxlist(l):
    return ';'.join(idx(i) for i in l) if l else '_'


def c07_sizes(bound, tier):
    """the square grid [2..bound]^2 (holds rows >= 2 cols and cols >= 2 rows as soon as bound >= 4) plus strips beyond it:
    narrow side 2 or 3, long side bound+1 .. 12 (quick) / 16 (thorough), both orientations"""
    return sizes(bound) + common.strips(range(2, 64), bound, 12 if tier == 'quick' else 16)


def c07_cases(ctx, bound):
    from qecsim.models.planar import PlanarCode

    def one_size(code, R, C):
        tag = 'planar {}x{}'.format(R, C)
        ctx.case('planar nkd {} {}'.format(R, C), '{} {} {}'.format(*code.n_k_d), meta={'tag': tag})
        ctx.case('planar stabs {} {}'.format(R, C), mat(code.stabilizers), meta={'tag': tag})
        ctx.case('planar lx {} {}'.format(R, C), bits(code.logical_xs[0]), meta={'tag': tag})
        ctx.case('planar lz {} {}'.format(R, C), bits(code.logical_zs[0]), meta={'tag': tag})
        ctx.case('planar plaqidx {} {}'.format(R, C), idxlist(code._plaquette_indices), meta={'tag': tag})
        common.code_monitor(ctx, code, tag)
        ctx.count('planar_size', '{}x{}'.format(R, C))
        # index map: every index in a margin around the lattice
        mr, mc = code.bounds
        flats = []
        for r in range(-2, mr + 3):
            for c in range(-2, mc + 3):
                i = (r, c)
                ctx.case('planar kinds ' + idx(i), '{}{}{}{}'.format(
                    int(code.is_plaquette(i)), int(code.is_site(i)), int(code.is_primal(i)), int(code.is_dual(i))),
                    nontrivial=False)
                ctx.case('planar inb {} {} {}'.format(R, C, idx(i)), str(int(code.is_in_bounds(i))), nontrivial=False)
                p = code.new_pauli()
                try:
                    f = str(p._flatten_site_index(i))
                    flats.append(int(f))
                except AssertionError:
                    f = 'AssertionError'
                ctx.case('planar flat {} {} {}'.format(R, C, idx(i)), f, meta={'tag': tag})
                # site / operator read-back / to_bsf agree through the bijection
                for op in 'XYZ':
                    try:
                        q = code.new_pauli().site(op, i)
                        v = bits(q.to_bsf())
                        if code.is_in_bounds(i) and q.operator(i) != op:
                            ctx.monitor_fail('site/operator read-back disagree', {'code': tag, 'index': list(i)})
                    except IndexError:
                        v = 'IndexError'
                    ctx.case('planar site {} {} {} {}'.format(R, C, op, idx(i)), v, nontrivial=(v not in (
                        'IndexError',)), meta={'tag': tag})
                try:
                    v = bits(code.new_pauli().plaquette(i).to_bsf())
                except IndexError:
                    v = 'IndexError'
                ctx.case('planar plaq {} {} {}'.format(R, C, idx(i)), v, meta={'tag': tag})
        # operator read-back on random Paulis
        for _ in range(4):
            v = np.array([ctx.rng.randint(0, 1) for _ in range(2 * code.n_k_d[0])])
            q = code.new_pauli(v)
            for r in range(-1, mr + 2):
                for c in range(-1, mc + 2):
                    try:
                        o = q.operator((r, c))
                    except IndexError:
                        o = 'IndexError'
                    ctx.case('planar opat {} {} {} {}'.format(R, C, bits(v), idx((r, c))), o, nontrivial=(o != 'IndexError'))
        if sorted(flats) != list(range(code.n_k_d[0])):
            ctx.monitor_fail('lattice-index <-> qubit map is not a bijection onto range(n)', {'code': tag})

    grid = c07_sizes(bound, ctx.tier)
    common.grid_report(ctx, NAME, grid)
    for (R, C) in grid:
        common.per_size(ctx, NAME, (R, C), lambda: PlanarCode(R, C), one_size)
    # constructor domain
    U = common.ctor_universe()
    for (a, ta), (b, tb) in itertools.product(U, U):
        ctx.case('planar ctor {} {}'.format(ta, tb), common.ctor_outcome(lambda: PlanarCode(a, b)),
                 nontrivial=True, meta={'tag': 'ctor'})


def plaquettes_with_virtual(code):
    """real plaquettes plus the virtual plaquettes just outside the matching boundary"""
    real = list(code._plaquette_indices)
    virt = sorted({code.virtual_plaquette_index(i) for i in real})
    return real, virt


def c15_cases(ctx, bound, pair_budget=None):
    from qecsim.models.planar import PlanarCode, PlanarMWPMDecoder
    rng = ctx.rng
    for (R, C) in sizes(bound):
        code = PlanarCode(R, C)
        tag = 'planar {}x{}'.format(R, C)
        S = code.stabilizers
        real, virt = plaquettes_with_virtual(code)
        pidx = {i: k for k, i in enumerate(real)}
        allp = real + virt
        pairs = [(a, b) for a in allp for b in allp if code.is_primal(a) == code.is_primal(b)]
        if pair_budget and len(pairs) > pair_budget:
            pairs = rng.sample(pairs, pair_budget)
            ctx.count('planar_pairs_sampled', tag)
        else:
            ctx.count('planar_pairs_all', tag)
        for a, b in pairs:
            p = code.new_pauli().path(a, b)
            v = p.to_bsf()
            ctx.case('planar path {} {} {} {}'.format(R, C, idx(a), idx(b)), bits(v), nontrivial=(a != b),
                     meta={'tag': tag})
            t = code.translation(a, b)
            ctx.case('planar trans {} {} {} {}'.format(R, C, idx(a), idx(b)), idx(t), nontrivial=(a != b))
            d = PlanarMWPMDecoder.distance(code, a, b)
            ctx.case('planar dist {} {} {} {}'.format(R, C, idx(a), idx(b)), str(int(d)), nontrivial=(a != b))
            # ---- the property itself on the real code
            syn = common.bsp(v, S)[0]
            want = np.zeros(len(real), dtype=int)
            if a != b:
                for e in (a, b):
                    if e in pidx:
                        want[pidx[e]] ^= 1
            if not np.array_equal(syn, want):
                ctx.monitor_fail('path does not anticommute with exactly its in-lattice endpoints',
                                 {'code': tag, 'a': list(a), 'b': list(b), 'syndrome': bits(syn), 'expected': bits(want)})
            n = code.n_k_d[0]
            wt = int(((v[:n] + v[n:]) > 0).sum())
            both_real = a in pidx and b in pidx
            if (both_real and wt != d) or wt > d:
                ctx.monitor_fail('path weight differs from the decoder distance',
                                 {'code': tag, 'a': list(a), 'b': list(b), 'weight': wt, 'distance': int(d)})
            tb = code.translation(b, a)
            if abs(t[0]) + abs(t[1]) != abs(tb[0]) + abs(tb[1]):
                ctx.monitor_fail('translation length not symmetric', {'code': tag, 'a': list(a), 'b': list(b)})
            if (a in pidx or b in pidx) and (a[0] + 2 * t[0], a[1] + 2 * t[1]) != b:
                ctx.monitor_fail('translation does not lead from a to b', {'code': tag, 'a': list(a), 'b': list(b),
                                                                           'translation': list(t)})
        # virtual plaquette of every real plaquette; IndexError cases
        for i in real:
            ctx.case('planar virt {} {} {}'.format(R, C, idx(i)), idx(code.virtual_plaquette_index(i)))
        mr, mc = code.bounds
        for i in [(0, 0), (1, 1), (2, 2), (-1, 1)]:
            try:
                v = idx(code.virtual_plaquette_index(i))
            except IndexError:
                v = 'IndexError'
            ctx.case('planar virt {} {} {}'.format(R, C, idx(i)), v, nontrivial=False)
        for a, b in [((0, 0), (0, 1)), ((0, 1), (0, 0)), ((0, 1), (1, 0)), ((1, 0), (0, 1))]:
            for op, f in (('trans', lambda: idx(code.translation(a, b))),
                          ('path', lambda: bits(code.new_pauli().path(a, b).to_bsf()))):
                try:
                    v = f()
                except IndexError:
                    v = 'IndexError'
                ctx.case('planar {} {} {} {} {}'.format(op, R, C, idx(a), idx(b)), v, nontrivial=False)
        # plaquette support (documented N,S,W,E clipped to the lattice) and syndrome-bit round trip
        for k, i in enumerate(real):
            q = code.new_pauli().plaquette(i)
            r, c = i
            sup = {s for s in [(r - 1, c), (r + 1, c), (r, c - 1), (r, c + 1)] if code.is_in_bounds(s)}
            op = 'Z' if code.is_primal(i) else 'X'
            got = {(rr, cc) for rr in range(mr + 1) for cc in range(mc + 1)
                   if code.is_site((rr, cc)) and q.operator((rr, cc)) != 'I'}
            if got != sup or any(q.operator(s) != op for s in sup):
                ctx.monitor_fail('plaquette operator does not have its documented support', {'code': tag, 'index': list(i)})
            unit = np.zeros(len(real), dtype=int); unit[k] = 1
            back = code.syndrome_to_plaquette_indices(unit)
            ctx.case('planar s2p {} {} {}'.format(R, C, bits(unit)), idxlist(sorted(back)), nontrivial=True)
            if back != {i}:
                ctx.monitor_fail('syndrome bit does not map back to its plaquette', {'code': tag, 'bit': k})
        for _ in range(3):
            s = np.array([rng.randint(0, 1) for _ in real])
            ctx.case('planar s2p {} {} {}'.format(R, C, bits(s)),
                     idxlist([i for i in real if i in code.syndrome_to_plaquette_indices(s)]))
