"""basic codes (five-qubit, Steane): C07 correspondence + direct monitor"""
from qv.core import mat
from qv.families import common

NAME = 'basic'


def c07_cases(ctx, bound):
    from qecsim.models.basic import FiveQubitCode, SteaneCode
    for op, cls in (('five', FiveQubitCode), ('steane', SteaneCode)):
        pub = common.published(ctx, 'basic ' + op, (), cls, lattice=False)
        if not pub.ok:
            continue
        c = pub.code
        n, k, d = c.n_k_d
        ctx.case('basic ' + op, '{} {} {} {} {} {}'.format(mat(c.stabilizers), mat(c.logical_xs), mat(c.logical_zs),
                                                          n, k, 'N' if d is None else d), meta={'tag': op})
        common.code_monitor(ctx, c, op)
        try:
            c.validate()
        except Exception as ex:
            ctx.monitor_fail('basic code fails validate()', {'code': op, 'error': repr(ex)})
