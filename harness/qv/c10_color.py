"""C10 helper — the colour 6.6.6 MPS decoder's tensor NETWORK against the model (Model/Color666Tn.lean, driver token
`c10color`).  `cases(ctx)` queues, for Color666Code sizes 3, 5, 7, 9 (11 in the thorough tier), decoder-made and random
sample Paulis with their three logical variants (the four networks `_coset_probabilities` builds) and several
distributions:

* every tensor of the real `TNC.create_tn` == the model tensor, shape and entry by entry, `None` cells included.  A
  stabilizer tensor is an integer delta (compared as it is).  A qubit tensor entry is the float product of the
  probabilities of the one or two qubits merged into the cell; the model sends the exact integer `m` over `D^k`
  (`k` = qubits in the cell, sent by the model as `degrees`) and the real entry must be the CORRECTLY ROUNDED float of
  `m / D^k` (float multiplication is correctly rounded and the delta reductions only add zeros), i.e. bit-for-bit
  equality — exact rational equality whenever the product is representable (always on the 2^-16 grid);
* sizes 3 and 5 (the only ones whose untruncated contraction is feasible): the model's evaluation of the network the way
  `_coset_probabilities` does it (`tnvalues`: ket = right-to-left contraction of columns 1.., bra = first column of each
  variant) == the exact spec `cosetProb` on the REAL stabilizer / logical matrices (`c10 cosets`, exact integers; all of
  size 3, part of size 5), == the model's `tncoset` on its own stabilizers, == the full default contraction (`tnfull`)
  and the literal index sum (`tnexact`, size 3); and the real `_coset_probabilities` floats within rel 1e-11 of the
  model's exact values.
"""
import math
from fractions import Fraction

import numpy as np

from qv import core
from qv.core import bits, mat

FAMILY = 'color666-tn'
REAL_LIMIT = 120   # seconds per real `_coset_probabilities` call (size <= 5 only; size 7 needs minutes)


def plan(ctx):
    """(size, items, spec): spec 'cosets' = exact spec on the real matrices, 'float' = real float contraction only,
    'tensors' = tensor comparison only (contraction infeasible without chi)"""
    q = ctx.quick()
    P = [(3, 3 if q else 20, 'cosets')]
    # quick: the size-5 exact spec value (2^18 group elements in the Lean driver) alternates with the float comparison by seed
    if q:
        P += [(5, 1, 'float')]   # the exact size-5 spec value (2^18 group elements, ~25 s in the driver) is thorough-only
    else:
        P += [(5, 2, 'cosets'), (5, 5, 'float')]
    P += [(7, 1 if q else 3, 'tensors')] + ([] if q else [(9, 2, 'tensors')])
    if not q:
        P += [(11, 1, 'tensors')]
    return P


def ser_real_tn(tn):
    """the real network: `N` / `n.e.s.w:entries`, ints as they are, floats by repr (compared bit for bit)"""
    toks = []
    for r in range(tn.shape[0]):
        for c in range(tn.shape[1]):
            t = tn[r, c]
            if t is None:
                toks.append('N'); continue
            t = np.asarray(t)
            if t.ndim != 4:
                toks.append('ndim{}'.format(t.ndim)); continue
            ent = []
            for x in t.flatten():
                if isinstance(x, (int, np.integer)):
                    ent.append(str(int(x)))
                else:
                    ent.append(repr(float(x)))
            toks.append('.'.join(str(int(d)) for d in t.shape) + ':' + ','.join(ent))
    return 'ok {}x{} {}'.format(tn.shape[0], tn.shape[1], ';'.join(toks))


def model_tn_post(D):
    """model reply `ok RxC degrees sites` -> the format of `ser_real_tn`: a cell of degree k > 0 is a float tensor whose
    entries are the correctly rounded floats of m / D^k; degree 0 cells are integer tensors"""
    def post(reply):
        toks = reply.split(' ')
        if len(toks) != 4 or toks[0] != 'ok':
            return reply[:200]
        degs, sites = toks[2], toks[3].split(';')
        if len(degs) != len(sites):
            return 'degrees/sites length mismatch'
        out = []
        for k, s in zip(degs, sites):
            if s == 'N':
                out.append('N'); continue
            shape, ent = s.split(':')
            k = int(k)
            if k == 0:
                out.append(s); continue
            den = D ** k
            out.append(shape + ':' + ','.join(repr(float(Fraction(int(x), den))) for x in ent.split(',')))
        return 'ok {} {}'.format(toks[1], ';'.join(out))
    return post


def variants(code, f):
    sp = code.new_pauli(np.array(f, dtype=int))
    return [sp, sp.copy().logical_x(), sp.copy().logical_x().logical_z(), sp.copy().logical_z()]


def cases(ctx, c10=None):
    """queue the colour-network cases; `c10` = the module qv.props.c10 (distributions, numerators, tolerances)"""
    if c10 is None:
        from qv.props import c10
    from qecsim.models.color import Color666Code, Color666MPSDecoder
    rng = ctx.rng
    raw = c10.raw_model_dists()
    items = []
    for size, n_items, spec in plan(ctx):
        code = Color666Code(size)
        n = code.n_k_d[0]
        for j in range(n_items):
            if j % 2 == 0:   # the decoder's own sample for a random syndrome (low weight half the time)
                i = rng.getrandbits(len(code.stabilizers))
                if j % 4 == 2:
                    i &= rng.getrandbits(len(code.stabilizers))
                syn = [(i >> k) & 1 for k in range(len(code.stabilizers))]
                f = [int(x) for x in Color666MPSDecoder.sample_recovery(code, np.array(syn, dtype=int)).to_bsf()]
                src = 'sample_recovery'
            else:            # any Pauli
                f = [rng.randrange(2) for _ in range(2 * n)]
                src = 'random'
            if j == 0 and size == 3:
                kind, dist = raw[0]
            elif rng.random() < 0.2:
                kind, dist = raw[rng.randrange(len(raw))]
            else:
                kind = c10.KINDS[rng.randrange(len(c10.KINDS))]
                dist = c10.make_dist(rng, kind, rng.choice(c10.PS))
            items.append((size, code, f, src, kind, tuple(float(x) for x in dist), spec))
    # phase 1: the exact spec values from the driver (Lean `cosetProb` on the REAL matrices)
    spec_lines = []
    for size, code, f, src, kind, dist, spec in items:
        a, D = c10.numerators(dist)
        if spec == 'cosets':
            spec_lines.append('c10 cosets {} {} {} {} {} {} {}'.format(mat(code.stabilizers), mat(code.logicals),
                                                                      bits(f), *a))
    spec_out = iter(ctx.driver.ask(spec_lines))
    # phase 2: the cases
    tnc = Color666MPSDecoder.TNC()
    for size, code, f, src, kind, dist, spec in items:
        a, D = c10.numerators(dist)
        n = code.n_k_d[0]
        meta = {'family': FAMILY, 'size': [size], 'sample': bits(f), 'dist': [x.hex() for x in dist], 'kind': kind,
                'sample_source': src}
        want = next(spec_out).split()[0].split(',') if spec == 'cosets' else None
        try:
            vs = variants(code, f)
        except Exception as ex:
            ctx.monitor_fail('Color666Pauli logical_x / logical_z raised ' + repr(ex)[:80], meta,
                             key='C10:colortn:variants')
            continue
        for vi, sp in enumerate(vs):
            fv = bits(sp.to_bsf())
            vmeta = dict(meta, variant='IXYZ'[vi])
            try:
                tn = tnc.create_tn(dist, sp)
                impl = ser_real_tn(tn)
            except Exception as ex:
                impl = 'raised {}:{}'.format(type(ex).__name__, str(ex)[:60])
            ctx.case('c10color tn {} {} {} {} {} {}'.format(size, fv, *a), impl, nontrivial=True, meta=vmeta,
                     post=model_tn_post(D))
            ctx.extra['colortn_networks'] = ctx.extra.get('colortn_networks', 0) + 1
            ctx.count('colortn_code', 'color666-{}'.format(size)); ctx.count('colortn_sample', src)
            if want is not None:
                # the decoder-style evaluation of the variant's own network == exact spec of that coset
                ctx.case('c10color tnvalue {} {} {} {} {} {}'.format(size, fv, *a), 'ok ' + want[vi],
                         nontrivial=True, meta=vmeta)
        if spec == 'tensors':
            continue
        line = 'c10color tnvalues {} {} {} {} {} {}'.format(size, bits(f), *a)
        if want is not None:
            # ket of the sample's network, bra = first column of each variant (model logicals) == the four exact sums
            ctx.case(line, 'ok ' + ','.join(want), nontrivial=True, meta=meta)
            ctx.case('c10color tnfull {} {} {} {} {} {}'.format(size, bits(f), *a), 'ok s ' + want[0],
                     nontrivial=True, meta=meta)
        if want is not None and size == 3:
            ctx.case('c10color tncoset {} {} {} {} {} {}'.format(size, bits(f), *a), want[0], nontrivial=True, meta=meta)
            ctx.case('c10color tnexact {} {} {} {} {} {}'.format(size, bits(f), *a), 'ok ' + want[0], nontrivial=True,
                     meta=meta)
        # the real float evaluation against the model's exact values
        try:
            with core.TimeLimit(REAL_LIMIT):
                ps, _ = Color666MPSDecoder()._coset_probabilities(dist, code.new_pauli(np.array(f, dtype=int)))
            real = [c10.to_fraction(p) for p in ps]
        except core.TimeLimit.Expired:
            real = 'timeout'
        except Exception as ex:
            real = 'raised {}:{}'.format(type(ex).__name__, str(ex)[:60])

        def post(reply, real=real, D=D, n=n):
            toks = reply.split()
            if len(toks) != 2 or toks[0] != 'ok' or not isinstance(real, list):
                return 'model {} real {}'.format(reply[:60], real)
            exact = [Fraction(int(x)) / Fraction(D) ** n for x in toks[1].split(',')]
            if len(exact) != len(real):
                return 'model {} values, real {}'.format(len(exact), len(real))
            top = max(exact)
            for i, (p, e) in enumerate(zip(real, exact)):
                if p is None or abs(p - e) > (c10.REL_TOL * e if e > 0 else c10.REL_TOL * (top if top else 1)):
                    return 'real coset {} probability {!r} differs from the model network value {:.17e}'.format(
                        'IXYZ'[i], None if p is None else float(p), float(e))
            return 'ok'
        ctx.case(line, 'ok', nontrivial=True, meta=meta, post=post)
    ctx.flush()


GENERIC_DIST = (0.8125, 0.03125, 0.0625, 0.09375)   # asymmetric, exactly representable


def evaluate_one(size, sample_bits, dist):
    """the property on the real code for one input: `_coset_probabilities(dist, sample)` of the real
    Color666MPSDecoder (chi = tol = None) against the exact coset sums enumerated in Python"""
    from qv.props import c10
    from qecsim.models.color import Color666Code, Color666MPSDecoder
    code = Color666Code(size)
    n = code.n_k_d[0]
    f = np.array([int(c) for c in sample_bits], dtype=int)
    a, D = c10.numerators(dist)
    exact = [Fraction(x) / Fraction(D) ** n for x in c10.python_exact(code, f, a)]
    try:
        with core.TimeLimit(REAL_LIMIT):
            ps, _ = Color666MPSDecoder()._coset_probabilities(dist, code.new_pauli(f))
    except Exception as ex:
        return {'what': 'Color666MPSDecoder()._coset_probabilities raised {!r}'.format(ex)[:300],
                'code': 'Color666Code({})'.format(size), 'sample_pauli_bsf': sample_bits, 'prob_dist': list(dist)}
    for i, (p, e) in enumerate(zip(ps, exact)):
        pf = c10.to_fraction(p)
        if pf is None or abs(pf - e) > (c10.REL_TOL * e if e > 0 else c10.REL_TOL * (max(exact) if max(exact) else 1)):
            return {'what': 'Color666MPSDecoder(chi=None)._coset_probabilities: coset {} probability {!r} differs from '
                            'the exact coset sum {:.17e}'.format('IXYZ'[i], p, float(e)),
                    'decoder': 'Color666MPSDecoder', 'code': 'Color666Code({})'.format(size),
                    'sample_pauli_bsf': sample_bits, 'prob_dist': list(dist),
                    'real_coset_probabilities': [float(x) for x in ps],
                    'exact_coset_probabilities_IXYZ': [float(x) for x in exact]}
    return None


def evaluate_input(meta):
    """failing-input search for a colour-network mismatch: the recorded (size, sample, distribution) when the size is 3
    or 5 (larger untruncated contractions are infeasible), then near variants — the same sample under an asymmetric
    distribution, and deterministic pseudo-random samples of size 3 (a symmetric distribution or a sample with equal
    Paulis on a merged pair can hide a broken network)"""
    import random
    size = meta['size'][0]
    dist = tuple(float.fromhex(x) for x in meta['dist'])
    cands = []
    if size <= 5:
        cands.append((size, meta['sample'], dist))
    if size == 3:
        cands.append((3, meta['sample'], GENERIC_DIST))
    rnd = random.Random(meta['sample'])
    for _ in range(12):
        cands.append((3, ''.join(rnd.choice('01') for _ in range(14)), GENERIC_DIST if rnd.random() < 0.7 else dist))
    for size_, sample_, dist_ in cands:
        r = evaluate_one(size_, sample_, dist_)
        if r is not None:
            return r
    return None


if __name__ == '__main__':
    # standalone: VERIF_SEED=k QV_LEAN_DIR=... python -m qv.c10_color [quick|thorough]
    import os
    import sys
    import time
    import logging
    logging.disable(logging.WARNING)
    tier = sys.argv[1] if len(sys.argv) > 1 else 'quick'
    ctx = core.Ctx('C10', tier, int(os.environ.get('VERIF_SEED', '0') or 0))
    t0 = time.time()
    cases(ctx)
    bad = [m for m in ctx.mismatches if m]
    for m in bad[:3]:
        print('MISMATCH', m['op'][:120], '\n  impl ', m['impl'][:300], '\n  model', m['model'][:300])
        print('  search ->', evaluate_input(m['meta']) if m.get('meta') else None)
    print('{} colour-network cases={} networks={} mismatches={} counterexamples={} time={:.1f}s'.format(
        'OK' if not ctx.mismatches and not ctx.counterexamples else 'FAIL', ctx.evaluations,
        ctx.extra.get('colortn_networks'), len(ctx.mismatches), len(ctx.counterexamples), time.time() - t0))
    sys.exit(1 if ctx.mismatches or ctx.counterexamples else 0)
