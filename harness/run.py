#!/venv/bin/python
"""entry point:  run.py <ID> --tier quick|thorough [--replay file]"""
import argparse
import importlib
import os
import subprocess
import sys
import traceback

sys.path.insert(0, os.path.dirname(os.path.abspath(__file__)))
from qv import core  # noqa: E402


def main():
    ap = argparse.ArgumentParser()
    ap.add_argument('pid')
    ap.add_argument('--tier', default=os.environ.get('VERIF_TIER', 'quick'), choices=['quick', 'thorough'])
    ap.add_argument('--replay', default=None)
    ap.add_argument('--no-lean', action='store_true', help='skip lake build/audit (development only)')
    a = ap.parse_args()
    seed = int(os.environ.get('VERIF_SEED', '0') or 0)
    pid = a.pid.upper()
    os.environ.setdefault('PYTHONHASHSEED', '0')
    import logging
    logging.getLogger('qecsim').setLevel(logging.CRITICAL)
    logging.disable(logging.WARNING)
    try:
        core.assert_repo_binding()
        mod = importlib.import_module('qv.props.' + pid.lower())
        ctx = core.Ctx(pid, a.tier, seed, level=getattr(mod, 'LEVEL', 'proof'))
        if a.replay:
            return core.do_replay(mod, pid, a.replay, getattr(mod, 'LEVEL', 'proof'))
        ctx.nolean = a.no_lean
        if not a.no_lean:
            ctx.lean_check(with_leanchecker=(a.tier == 'thorough'))
        return mod.run(ctx)
    except core.Infra as ex:
        print('INFRA-ERROR {}: {}'.format(pid, ex))
        return 2
    except subprocess.TimeoutExpired as ex:
        print('INFRA-ERROR {}: timeout {}'.format(pid, ex))
        return 2
    except Exception as ex:
        traceback.print_exc()
        # An exception raised INSIDE the qecsim tree under test that the harness did not expect is a broken
        # correspondence (the real code raised where, on the unchanged tree, it does not): report it as a violation
        # without a failing input of the property. Exceptions raised in harness code stay infrastructure errors.
        tb = traceback.extract_tb(ex.__traceback__)
        src = os.path.realpath(os.path.join(core.REPO, 'src')) + os.sep
        inner = tb[-1] if tb else None
        if inner is not None and os.path.realpath(inner.filename).startswith(src) and 'ctx' in locals():
            try:
                v = {'kind': 'correspondence-break', 'via': 'implementation-raised',
                     'broken': 'correspondence {}: the implementation raised {} at {}:{} ({}) where the harness expects '
                               'no exception'.format(pid, type(ex).__name__, os.path.relpath(inner.filename, src),
                                                     inner.lineno, inner.name),
                     'exception': repr(ex)[:500],
                     'harness_frames': ['{}:{} {}'.format(os.path.basename(f.filename), f.lineno, f.name)
                                        for f in tb if not os.path.realpath(f.filename).startswith(src)][-6:],
                     'note': 'no-failing-input-found'}
                path = ctx.write_replay([v])
                try:
                    ctx.write_evidence(getattr(mod, 'RULE', ''), 'run aborted: ' + v['broken'], 1)
                except Exception:
                    pass
                print('VIOLATION property={} replay={} no-failing-input-found'.format(pid, path))
                return 1
            except Exception:
                traceback.print_exc()
        # A data-shape exception (TypeError, ValueError, IndexError, …) raised in HARNESS code while it renders or
        # compares what the implementation returned means the implementation's output no longer has the form the
        # correspondence is defined on (e.g. None where a vector is documented): the correspondence cannot be
        # evaluated, the property is no longer shown to hold -> violation without a failing input, naming the
        # correspondence.  Resource / process / driver problems (OSError, MemoryError, core.Infra, timeouts) stay
        # infrastructure errors.
        shape_errors = (TypeError, ValueError, IndexError, KeyError, AttributeError, AssertionError, ZeroDivisionError,
                        OverflowError)
        if isinstance(ex, shape_errors) and not isinstance(ex, (OSError, MemoryError)) and 'ctx' in locals() \
                and not a.replay:
            try:
                hf = [f for f in tb if os.sep + 'harness' + os.sep in os.path.realpath(f.filename)]
                at = hf[-1] if hf else inner
                v = {'kind': 'correspondence-break', 'via': 'harness-could-not-interpret-implementation-output',
                     'broken': 'correspondence {}: the harness raised {} at {}:{} ({}) while rendering / comparing what '
                               'the implementation returned — its output does not have the form the correspondence is '
                               'defined on'.format(pid, type(ex).__name__, os.path.basename(at.filename), at.lineno,
                                                   at.name),
                     'exception': repr(ex)[:500],
                     'harness_frames': ['{}:{} {}'.format(os.path.basename(f.filename), f.lineno, f.name)
                                        for f in tb][-8:],
                     'note': 'no-failing-input-found'}
                path = ctx.write_replay([v])
                try:
                    ctx.write_evidence(getattr(mod, 'RULE', ''), 'run aborted: ' + v['broken'], 1)
                except Exception:
                    pass
                print('VIOLATION property={} replay={} no-failing-input-found'.format(pid, path))
                return 1
            except Exception:
                traceback.print_exc()
        print('INFRA-ERROR {}: harness exception'.format(pid))
        return 2


if __name__ == '__main__':
    sys.exit(main())
